// simgen instruments a scratch copy of gethiox/HIDI for deterministic simulation.
//
// It loads the packages with full type information and rewrites, in place:
//
//	R1  sync.Mutex / sync.RWMutex           -> simrt.Mutex / simrt.RWMutex
//	R2  go f(a, b)                          -> simrt.Go(site, func(){ f0(a0, b0) }) with operands evaluated at the go statement
//	R3  statements with one blocking operation (send, receive, close, WaitGroup.Wait, time.Sleep,
//	    CancelFunc call, calls into peer packages) -> bracketed by simrt.Yield gates
//	R4  for v := range ch                   -> gates before the loop, at the top of every iteration and after the loop
//	R5  select                              -> operands hoisted, cases polled in simrt.SelectOrder order, blocking fallback, gates
//	R6  for k, v := range aMap              -> iteration over simrt.MapKeys (sorted, then PRNG-permuted), deleted keys skipped
//	R7  os / filepath / ioutil file-system calls and *os.File -> simfs
//
// A function containing a construct outside these rules gets a guard that aborts a simulated
// run reaching it (simrt.Unsupported), so a tree is never silently run half-instrumented.
package main

import (
	"bytes"
	"encoding/json"
	"flag"
	"fmt"
	"go/ast"
	"go/printer"
	"go/token"
	"go/types"
	"os"
	"path/filepath"
	"sort"
	"strings"

	"golang.org/x/tools/go/ast/astutil"
	"golang.org/x/tools/go/packages"
)

var (
	dir     = flag.String("dir", ".", "root of the scratch module")
	simBase = flag.String("simpkg", "github.com/gethiox/HIDI/verifsim", "import path prefix of the simulation runtime")
	outJSON = flag.String("summary", "", "write a JSON summary here")
)

// packages whose exported calls block on a peer and therefore are scheduling points
var blockingPkgs = map[string]bool{
	"github.com/realbucksavage/openrgb-go": true,
}

var skipPkgSuffix = []string{"/internal/pkg/logger", "/verifsim/"}

var osFuncs = map[string]bool{
	"Open": true, "OpenFile": true, "Create": true, "Mkdir": true, "MkdirAll": true, "Stat": true, "Lstat": true,
	"ReadFile": true, "WriteFile": true, "ReadDir": true, "Remove": true, "RemoveAll": true, "Rename": true,
	"Truncate": true, "Chmod": true,
}
var osHarmless = map[string]bool{
	"IsNotExist": true, "IsExist": true, "IsPermission": true, "Exit": true, "Getenv": true, "Getpid": true,
	"ErrNotExist": true, "ErrExist": true, "ErrPermission": true, "ErrProcessDone": true, "ErrClosed": true,
	"Signal": true, "Interrupt": true, "Kill": true, "PathSeparator": true, "Stdout": true, "Stderr": true, "Stdin": true,
	"O_RDONLY": true, "O_WRONLY": true, "O_RDWR": true, "O_APPEND": true, "O_CREATE": true, "O_EXCL": true,
	"O_SYNC": true, "O_TRUNC": true, "FileInfo": true, "FileMode": true, "DirEntry": true, "ModePerm": true,
	"PathError": true, "Args": true, "LookupEnv": true, "Environ": true, "ModeDir": true, "ModeSymlink": true,
	"PathListSeparator": true, "DevNull": true, "Process": true, "FindProcess": true, "Executable": true,
	"Hostname": true, "Getuid": true, "Geteuid": true, "Setenv": true, "Unsetenv": true, "ErrInvalid": true,
	"ErrDeadlineExceeded": true, "SyscallError": true, "LinkError": true, "ErrNoDeadline": true, "SameFile": true,
	"ModeType": true, "ModeNamedPipe": true, "ModeSocket": true, "ModeDevice": true, "ModeCharDevice": true,
	"ModeIrregular": true, "ModeAppend": true, "ModeExclusive": true, "ModeTemporary": true, "ModeSetuid": true,
	"ModeSetgid": true, "ModeSticky": true, "UserHomeDir": true, "NewSyscallError": true,
}
var filepathFuncs = map[string]bool{"Walk": true, "WalkDir": true, "EvalSymlinks": true, "Glob": true}
var ioutilFuncs = map[string]bool{"ReadFile": true, "WriteFile": true, "ReadDir": true}

type counts struct {
	Mutex, Go, Gate, RangeChan, Select, MapRange, FS, Unsupported int
}

type fileCtx struct {
	pkg      *packages.Package
	file     *ast.File
	rel      string
	n        counts
	tmp      int
	needRT   bool
	needFS   bool
	unsup    []string
	funcBody []*ast.BlockStmt // stack of enclosing function bodies
	guards   map[*ast.BlockStmt]string

	pendingUnsup []pendingU
	reported     map[ast.Node]bool
}

func main() {
	flag.Parse()
	root, _ := filepath.Abs(*dir)
	cfg := &packages.Config{
		Mode: packages.NeedName | packages.NeedFiles | packages.NeedCompiledGoFiles | packages.NeedSyntax |
			packages.NeedTypes | packages.NeedTypesInfo | packages.NeedImports | packages.NeedDeps,
		Dir:   root,
		Tests: false,
		Env:   os.Environ(),
	}
	pkgs, err := packages.Load(cfg, "./...")
	if err != nil {
		fatal("load: %v", err)
	}
	summary := map[string]counts{}
	var unsupported []string
	total := counts{}
	for _, p := range pkgs {
		skip := false
		for _, s := range skipPkgSuffix {
			if strings.HasSuffix(p.PkgPath, s) || strings.Contains(p.PkgPath+"/", s) {
				skip = true
			}
		}
		if skip {
			continue
		}
		if len(p.Errors) > 0 {
			// packages that do not type-check cannot be instrumented soundly
			for _, e := range p.Errors {
				fmt.Fprintf(os.Stderr, "simgen: %s: %v\n", p.PkgPath, e)
			}
			fatal("package %s has errors", p.PkgPath)
		}
		for i, f := range p.Syntax {
			name := p.CompiledGoFiles[i]
			if !strings.HasPrefix(name, root) || strings.HasSuffix(name, "_test.go") {
				continue
			}
			rel, _ := filepath.Rel(root, name)
			fc := &fileCtx{pkg: p, file: f, rel: rel, guards: map[*ast.BlockStmt]string{}}
			fc.instrument()
			if fc.n == (counts{}) {
				continue
			}
			if err := fc.write(name); err != nil {
				fatal("write %s: %v", name, err)
			}
			summary[rel] = fc.n
			unsupported = append(unsupported, fc.unsup...)
			total.Mutex += fc.n.Mutex
			total.Go += fc.n.Go
			total.Gate += fc.n.Gate
			total.RangeChan += fc.n.RangeChan
			total.Select += fc.n.Select
			total.MapRange += fc.n.MapRange
			total.FS += fc.n.FS
			total.Unsupported += fc.n.Unsupported
		}
	}
	sort.Strings(unsupported)
	out := map[string]interface{}{"files": summary, "total": total, "unsupported": unsupported}
	b, _ := json.MarshalIndent(out, "", " ")
	if *outJSON != "" {
		os.WriteFile(*outJSON, b, 0o644)
	} else {
		fmt.Println(string(b))
	}
}

func fatal(f string, a ...interface{}) {
	fmt.Fprintf(os.Stderr, "simgen: "+f+"\n", a...)
	os.Exit(2)
}

func (fc *fileCtx) fset() *token.FileSet { return fc.pkg.Fset }

func (fc *fileCtx) site(n ast.Node) string {
	p := fc.fset().Position(n.Pos())
	return fmt.Sprintf("%s:%d", fc.rel, p.Line)
}

func (fc *fileCtx) fresh(prefix string) *ast.Ident {
	fc.tmp++
	return ast.NewIdent(fmt.Sprintf("_sim%s%d", prefix, fc.tmp))
}

func (fc *fileCtx) rt(name string) ast.Expr {
	fc.needRT = true
	return &ast.SelectorExpr{X: ast.NewIdent("simrt"), Sel: ast.NewIdent(name)}
}

func (fc *fileCtx) fs(name string) ast.Expr {
	fc.needFS = true
	return &ast.SelectorExpr{X: ast.NewIdent("simfs"), Sel: ast.NewIdent(name)}
}

func str(s string) ast.Expr { return &ast.BasicLit{Kind: token.STRING, Value: fmt.Sprintf("%q", s)} }

func (fc *fileCtx) yield(site string) ast.Stmt {
	fc.n.Gate++
	return &ast.ExprStmt{X: &ast.CallExpr{Fun: fc.rt("Yield"), Args: []ast.Expr{str(site)}}}
}

func (fc *fileCtx) unsupported(n ast.Node, why string) {
	fc.n.Unsupported++
	s := fc.site(n) + " " + why
	fc.unsup = append(fc.unsup, s)
	if len(fc.funcBody) > 0 {
		b := fc.funcBody[len(fc.funcBody)-1]
		if _, ok := fc.guards[b]; !ok {
			fc.guards[b] = s
		}
	}
}

func (fc *fileCtx) instrument() {
	// R1 + R7: selector substitution (types and calls), before statement rewriting
	astutil.Apply(fc.file, func(c *astutil.Cursor) bool {
		sel, ok := c.Node().(*ast.SelectorExpr)
		if !ok {
			return true
		}
		id, ok := sel.X.(*ast.Ident)
		if !ok {
			return true
		}
		pn, ok := fc.pkg.TypesInfo.Uses[id].(*types.PkgName)
		if !ok {
			return true
		}
		switch pn.Imported().Path() {
		case "sync":
			if sel.Sel.Name == "Mutex" || sel.Sel.Name == "RWMutex" {
				c.Replace(fc.rt(sel.Sel.Name))
				fc.n.Mutex++
			}
		case "os":
			if osFuncs[sel.Sel.Name] {
				c.Replace(fc.fs(sel.Sel.Name))
				fc.n.FS++
			} else if sel.Sel.Name == "File" {
				c.Replace(fc.fs("File"))
				fc.n.FS++
			} else if !osHarmless[sel.Sel.Name] {
				fc.pendingUnsup = append(fc.pendingUnsup, pendingU{sel, "os." + sel.Sel.Name + " has no simfs seam"})
			}
		case "path/filepath":
			if filepathFuncs[sel.Sel.Name] {
				c.Replace(fc.fs(sel.Sel.Name))
				fc.n.FS++
			}
		case "io/ioutil":
			if ioutilFuncs[sel.Sel.Name] {
				c.Replace(fc.fs(sel.Sel.Name))
				fc.n.FS++
			}
		}
		return true
	}, nil)

	for _, d := range fc.file.Decls {
		fd, ok := d.(*ast.FuncDecl)
		if !ok || fd.Body == nil {
			// function literals in package-level var initialisers
			if gd, ok := d.(*ast.GenDecl); ok {
				fc.funcLits(gd)
			}
			continue
		}
		fc.funcBodyRewrite(fd.Body)
	}
	// guards
	for body, why := range fc.guards {
		g := &ast.ExprStmt{X: &ast.CallExpr{Fun: fc.rt("Unsupported"), Args: []ast.Expr{str(why)}}}
		body.List = append([]ast.Stmt{g}, body.List...)
	}
}

type pendingU struct {
	n   ast.Node
	why string
}

func (fc *fileCtx) funcBodyRewrite(b *ast.BlockStmt) {
	fc.funcBody = append(fc.funcBody, b)
	b.List = fc.stmtList(b.List)
	for _, pu := range fc.pendingUnsup {
		if pu.n.Pos() >= b.Pos() && pu.n.End() <= b.End() {
			if fc.reported == nil {
				fc.reported = map[ast.Node]bool{}
			}
			if !fc.reported[pu.n] {
				fc.reported[pu.n] = true
				fc.unsupported(pu.n, pu.why)
			}
		}
	}
	fc.funcBody = fc.funcBody[:len(fc.funcBody)-1]
}

// funcLits rewrites the bodies of function literals found in the expression parts of n
// (it does not descend into nested statement bodies, which are handled by stmtList).
func (fc *fileCtx) funcLits(n ast.Node) {
	if n == nil {
		return
	}
	ast.Inspect(n, func(x ast.Node) bool {
		if fl, ok := x.(*ast.FuncLit); ok {
			fc.funcBodyRewrite(fl.Body)
			return false
		}
		return true
	})
}

func (fc *fileCtx) stmtList(list []ast.Stmt) []ast.Stmt {
	var out []ast.Stmt
	for _, s := range list {
		out = append(out, fc.stmt(s)...)
	}
	return out
}

func (fc *fileCtx) block(b *ast.BlockStmt) {
	if b != nil {
		b.List = fc.stmtList(b.List)
	}
}

// stmt rewrites one statement and returns its replacement list.
func (fc *fileCtx) stmt(s ast.Stmt) []ast.Stmt {
	switch s := s.(type) {
	case nil:
		return nil
	case *ast.BlockStmt:
		fc.block(s)
		return []ast.Stmt{s}
	case *ast.LabeledStmt:
		return fc.labeled(s)
	case *ast.IfStmt:
		return []ast.Stmt{fc.ifStmt(s)}
	case *ast.ForStmt:
		fc.simplePart(s.Init, "for-init")
		fc.exprPart(s.Cond, "for-cond")
		fc.simplePart(s.Post, "for-post")
		fc.block(s.Body)
		return []ast.Stmt{s}
	case *ast.RangeStmt:
		return []ast.Stmt{fc.rangeStmt(s, nil)}
	case *ast.SwitchStmt:
		fc.simplePart(s.Init, "switch-init")
		fc.exprPart(s.Tag, "switch-tag")
		fc.caseBodies(s.Body)
		return []ast.Stmt{s}
	case *ast.TypeSwitchStmt:
		fc.simplePart(s.Init, "switch-init")
		fc.simplePart(s.Assign, "typeswitch")
		fc.caseBodies(s.Body)
		return []ast.Stmt{s}
	case *ast.SelectStmt:
		return []ast.Stmt{fc.selectStmt(s, nil)}
	case *ast.GoStmt:
		fc.funcLits(s.Call)
		return []ast.Stmt{fc.goStmt(s)}
	case *ast.DeferStmt:
		fc.funcLits(s.Call)
		if n := fc.blockingOps(s.Call, true); n > 0 {
			// deferred receive etc.: not expressible with gates
			fc.unsupported(s, "blocking operation in defer")
		}
		return []ast.Stmt{s}
	case *ast.ReturnStmt:
		fc.funcLits(s)
		if fc.blockingOps(s, false) > 0 {
			fc.unsupported(s, "blocking operation in return")
		}
		return []ast.Stmt{s}
	case *ast.BranchStmt:
		if s.Tok == token.GOTO {
			fc.unsupported(s, "goto")
		}
		return []ast.Stmt{s}
	default:
		// simple statements
		fc.funcLits(s)
		return fc.simple(s)
	}
}

func (fc *fileCtx) caseBodies(b *ast.BlockStmt) {
	for _, c := range b.List {
		if cc, ok := c.(*ast.CaseClause); ok {
			for _, e := range cc.List {
				fc.exprPart(e, "case-expr")
			}
			cc.Body = fc.stmtList(cc.Body)
		}
	}
}

// exprPart handles an expression that is part of a compound statement header.
func (fc *fileCtx) exprPart(e ast.Expr, what string) {
	if e == nil {
		return
	}
	fc.funcLits(e)
	if fc.blockingOps(e, false) > 0 {
		fc.unsupported(e, "blocking operation in "+what)
	}
}

func (fc *fileCtx) simplePart(s ast.Stmt, what string) {
	if s == nil {
		return
	}
	fc.funcLits(s)
	if fc.blockingOps(s, false) > 0 {
		fc.unsupported(s, "blocking operation in "+what)
	}
}

func (fc *fileCtx) ifStmt(s *ast.IfStmt) ast.Stmt {
	fc.exprPart(s.Cond, "if-cond")
	fc.block(s.Body)
	switch e := s.Else.(type) {
	case *ast.BlockStmt:
		fc.block(e)
	case *ast.IfStmt:
		s.Else = fc.ifStmt(e)
		if _, ok := s.Else.(*ast.IfStmt); !ok {
			s.Else = &ast.BlockStmt{List: []ast.Stmt{s.Else}}
		}
	}
	if s.Init != nil {
		fc.funcLits(s.Init)
		n := fc.blockingOps(s.Init, false)
		if n == 1 {
			// { pre; init; post; if cond {...} }
			init := s.Init
			s.Init = nil
			site := fc.site(init)
			return &ast.BlockStmt{List: []ast.Stmt{fc.yield(site), init, fc.yield(site + "+"), s}}
		} else if n > 1 {
			fc.unsupported(s.Init, "several blocking operations in if-init")
		}
	}
	return s
}

func (fc *fileCtx) labeled(l *ast.LabeledStmt) []ast.Stmt {
	switch inner := l.Stmt.(type) {
	case *ast.RangeStmt:
		return []ast.Stmt{fc.rangeStmt(inner, l)}
	case *ast.SelectStmt:
		return []ast.Stmt{fc.selectStmt(inner, l)}
	default:
		r := fc.stmt(l.Stmt)
		if len(r) == 1 {
			l.Stmt = r[0]
			return []ast.Stmt{l}
		}
		// simple statement with gates under a label (only a goto target could need it)
		fc.unsupported(l, "label on a gated simple statement")
		return []ast.Stmt{l}
	}
}

// isRecv reports whether e (parentheses removed) is a receive expression.
func isRecv(e ast.Expr) bool {
	for {
		p, ok := e.(*ast.ParenExpr)
		if !ok {
			break
		}
		e = p.X
	}
	u, ok := e.(*ast.UnaryExpr)
	return ok && u.Op == token.ARROW
}

// blockingOps counts the blocking operations syntactically inside n, not descending into
// function literals. With deferCall set, n is the call of a defer statement and the call
// itself is not counted when it is only a wake-up (close, Done, Unlock).
func (fc *fileCtx) blockingOps(n ast.Node, deferCall bool) int {
	cnt := 0
	ast.Inspect(n, func(x ast.Node) bool {
		switch x := x.(type) {
		case *ast.FuncLit:
			return false
		case *ast.UnaryExpr:
			if x.Op == token.ARROW {
				cnt++
			}
		case *ast.SendStmt:
			cnt++
		case *ast.CallExpr:
			k := fc.callKind(x)
			if deferCall && x == n && (k == "close" || k == "cancel") {
				return true
			}
			if k != "" {
				cnt++
			}
		}
		return true
	})
	return cnt
}

// callKind classifies scheduling-relevant calls.
func (fc *fileCtx) callKind(c *ast.CallExpr) string {
	info := fc.pkg.TypesInfo
	switch f := c.Fun.(type) {
	case *ast.Ident:
		if b, ok := info.Uses[f].(*types.Builtin); ok && b.Name() == "close" {
			return "close"
		}
		if tv, ok := info.Types[f]; ok && isCancelFunc(tv.Type) {
			return "cancel"
		}
	case *ast.SelectorExpr:
		if tv, ok := info.Types[f]; ok && isCancelFunc(tv.Type) {
			return "cancel"
		}
		var obj types.Object
		if sel, ok := info.Selections[f]; ok {
			obj = sel.Obj()
		} else {
			obj = info.Uses[f.Sel]
		}
		fn, ok := obj.(*types.Func)
		if !ok || fn.Pkg() == nil {
			return ""
		}
		full := fn.FullName()
		switch full {
		case "time.Sleep":
			return "sleep"
		case "(*sync.WaitGroup).Wait":
			return "wait"
		case "(*sync.Cond).Wait":
			return "condwait"
		}
		if blockingPkgs[fn.Pkg().Path()] && fn.Exported() {
			return "peer"
		}
	}
	return ""
}

func isCancelFunc(t types.Type) bool {
	n, ok := t.(*types.Named)
	return ok && n.Obj().Pkg() != nil && n.Obj().Pkg().Path() == "context" && n.Obj().Name() == "CancelFunc"
}

// simple rewrites a simple statement (R3).
func (fc *fileCtx) simple(s ast.Stmt) []ast.Stmt {
	n := fc.blockingOps(s, false)
	if n == 0 {
		return []ast.Stmt{s}
	}
	if n > 1 {
		fc.unsupported(s, "several blocking operations in one statement")
		return []ast.Stmt{s}
	}
	site := fc.site(s)
	// which kind? wake-ups need only a pre gate
	kind := ""
	ast.Inspect(s, func(x ast.Node) bool {
		if _, ok := x.(*ast.FuncLit); ok {
			return false
		}
		if c, ok := x.(*ast.CallExpr); ok {
			if k := fc.callKind(c); k != "" {
				kind = k
			}
		}
		return true
	})
	if kind == "condwait" {
		fc.unsupported(s, "sync.Cond")
		return []ast.Stmt{s}
	}
	if kind == "close" || kind == "cancel" {
		return []ast.Stmt{fc.yield(site), s}
	}
	return []ast.Stmt{fc.yield(site), s, fc.yield(site + "+")}
}

// R2
func (fc *fileCtx) goStmt(g *ast.GoStmt) ast.Stmt {
	fc.n.Go++
	info := fc.pkg.TypesInfo
	site := fc.site(g)
	var pre []ast.Stmt
	call := g.Call
	hoist := func(e ast.Expr) ast.Expr {
		if tv, ok := info.Types[e]; ok {
			if tv.Value != nil || tv.IsNil() {
				return e // constants and nil are pure; keep them in place (untyped constants keep their context)
			}
			if tv.IsType() || tv.IsBuiltin() {
				return e
			}
		}
		if _, ok := e.(*ast.FuncLit); ok {
			id := fc.fresh("f")
			pre = append(pre, &ast.AssignStmt{Lhs: []ast.Expr{id}, Tok: token.DEFINE, Rhs: []ast.Expr{e}})
			return id
		}
		id := fc.fresh("a")
		pre = append(pre, &ast.AssignStmt{Lhs: []ast.Expr{id}, Tok: token.DEFINE, Rhs: []ast.Expr{e}})
		return id
	}
	// builtin or conversion as go target: leave alone
	if id, ok := call.Fun.(*ast.Ident); ok {
		if _, isB := info.Uses[id].(*types.Builtin); isB {
			fc.unsupported(g, "go <builtin>")
			return g
		}
	}
	newCall := &ast.CallExpr{Ellipsis: call.Ellipsis}
	newCall.Fun = hoist(call.Fun)
	for _, a := range call.Args {
		newCall.Args = append(newCall.Args, hoist(a))
	}
	fl := &ast.FuncLit{Type: &ast.FuncType{Params: &ast.FieldList{}}, Body: &ast.BlockStmt{List: []ast.Stmt{&ast.ExprStmt{X: newCall}}}}
	spawn := &ast.ExprStmt{X: &ast.CallExpr{Fun: fc.rt("Go"), Args: []ast.Expr{str(site), fl}}}
	return &ast.BlockStmt{List: append(pre, spawn)}
}

func wrapLabel(l *ast.LabeledStmt, s ast.Stmt) ast.Stmt {
	if l == nil {
		return s
	}
	l.Stmt = s
	return l
}

// R4 + R6
func (fc *fileCtx) rangeStmt(r *ast.RangeStmt, label *ast.LabeledStmt) ast.Stmt {
	fc.exprPart(r.X, "range-expr")
	fc.block(r.Body)
	tv, ok := fc.pkg.TypesInfo.Types[r.X]
	if !ok {
		return wrapLabel(label, r)
	}
	site := fc.site(r)
	switch tv.Type.Underlying().(type) {
	case *types.Chan:
		fc.n.RangeChan++
		r.Body.List = append([]ast.Stmt{fc.yield(site + "+")}, r.Body.List...)
		return &ast.BlockStmt{List: []ast.Stmt{fc.yield(site), wrapLabel(label, r), fc.yield(site + "+end")}}
	case *types.Map:
		fc.n.MapRange++
		return fc.mapRange(r, label)
	}
	return wrapLabel(label, r)
}

func isBlank(e ast.Expr) bool {
	if e == nil {
		return true
	}
	id, ok := e.(*ast.Ident)
	return ok && id.Name == "_"
}

func (fc *fileCtx) mapRange(r *ast.RangeStmt, label *ast.LabeledStmt) ast.Stmt {
	m := fc.fresh("m")
	k := fc.fresh("k")
	okv := fc.fresh("ok")
	var pre []ast.Stmt
	pre = append(pre, &ast.AssignStmt{Lhs: []ast.Expr{m}, Tok: token.DEFINE, Rhs: []ast.Expr{r.X}})
	define := r.Tok == token.DEFINE
	hasK, hasV := !isBlank(r.Key), !isBlank(r.Value)
	if define {
		// per-loop variables: the loop-variable semantics of this module's language version
		if hasK {
			pre = append(pre, varDecl(r.Key.(*ast.Ident), &ast.CallExpr{Fun: fc.rt("KeyZero"), Args: []ast.Expr{m}}))
		}
		if hasV {
			pre = append(pre, varDecl(r.Value.(*ast.Ident), &ast.CallExpr{Fun: fc.rt("ValZero"), Args: []ast.Expr{m}}))
		}
	}
	var body []ast.Stmt
	idx := &ast.IndexExpr{X: m, Index: k}
	var vLhs ast.Expr = ast.NewIdent("_")
	if hasV {
		vLhs = r.Value
	}
	body = append(body, &ast.DeclStmt{Decl: &ast.GenDecl{Tok: token.VAR, Specs: []ast.Spec{&ast.ValueSpec{Names: []*ast.Ident{okv}, Type: ast.NewIdent("bool")}}}})
	// existence check first, so that a deleted key leaves the loop variables untouched
	body = append(body, &ast.AssignStmt{Lhs: []ast.Expr{ast.NewIdent("_"), okv}, Tok: token.ASSIGN, Rhs: []ast.Expr{idx}})
	body = append(body, &ast.IfStmt{Cond: &ast.UnaryExpr{Op: token.NOT, X: okv}, Body: &ast.BlockStmt{List: []ast.Stmt{&ast.BranchStmt{Tok: token.CONTINUE}}}})
	if hasK {
		body = append(body, &ast.AssignStmt{Lhs: []ast.Expr{r.Key}, Tok: token.ASSIGN, Rhs: []ast.Expr{k}})
	}
	if hasV {
		body = append(body, &ast.AssignStmt{Lhs: []ast.Expr{vLhs}, Tok: token.ASSIGN, Rhs: []ast.Expr{&ast.IndexExpr{X: m, Index: k}}})
	}
	body = append(body, r.Body)
	loop := &ast.RangeStmt{Key: ast.NewIdent("_"), Value: k, Tok: token.DEFINE,
		X:    &ast.CallExpr{Fun: fc.rt("MapKeys"), Args: []ast.Expr{m}},
		Body: &ast.BlockStmt{List: body}}
	return &ast.BlockStmt{List: append(pre, wrapLabel(label, loop))}
}

func varDecl(name *ast.Ident, val ast.Expr) ast.Stmt {
	return &ast.DeclStmt{Decl: &ast.GenDecl{Tok: token.VAR, Specs: []ast.Spec{&ast.ValueSpec{Names: []*ast.Ident{ast.NewIdent(name.Name)}, Values: []ast.Expr{val}}}}}
}

// R5
func (fc *fileCtx) selectStmt(s *ast.SelectStmt, label *ast.LabeledStmt) ast.Stmt {
	fc.n.Select++
	site := fc.site(s)
	type caseInfo struct {
		cc      *ast.CommClause
		ch      *ast.Ident
		sendVal *ast.Ident
		v, ok   *ast.Ident
		bind    []ast.Stmt // statements binding received values at the top of the case body
		isSend  bool
	}
	var cases []*caseInfo
	var def *ast.CommClause
	var pre []ast.Stmt
	pre = append(pre, fc.yield(site))
	for _, c := range s.Body.List {
		cc := c.(*ast.CommClause)
		cc.Body = fc.stmtList(cc.Body)
		if cc.Comm == nil {
			def = cc
			continue
		}
		fc.funcLits(cc.Comm)
		ci := &caseInfo{cc: cc}
		switch cm := cc.Comm.(type) {
		case *ast.SendStmt:
			ci.isSend = true
			ci.ch = fc.fresh("c")
			ci.sendVal = fc.fresh("s")
			pre = append(pre, &ast.AssignStmt{Lhs: []ast.Expr{ci.ch}, Tok: token.DEFINE, Rhs: []ast.Expr{cm.Chan}})
			// the value keeps the channel's element type
			pre = append(pre, &ast.DeclStmt{Decl: &ast.GenDecl{Tok: token.VAR, Specs: []ast.Spec{&ast.ValueSpec{Names: []*ast.Ident{ci.sendVal}, Values: []ast.Expr{&ast.CallExpr{Fun: fc.rt("ZeroS"), Args: []ast.Expr{ci.ch}}}}}}})
			pre = append(pre, &ast.AssignStmt{Lhs: []ast.Expr{ci.sendVal}, Tok: token.ASSIGN, Rhs: []ast.Expr{cm.Value}})
		case *ast.ExprStmt:
			if !isRecv(cm.X) {
				fc.unsupported(s, "select case shape")
				return wrapLabel(label, s)
			}
			ci.ch = fc.fresh("c")
			pre = append(pre, &ast.AssignStmt{Lhs: []ast.Expr{ci.ch}, Tok: token.DEFINE, Rhs: []ast.Expr{unparenRecv(cm.X)}})
		case *ast.AssignStmt:
			if len(cm.Rhs) != 1 || !isRecv(cm.Rhs[0]) || len(cm.Lhs) > 2 {
				fc.unsupported(s, "select case shape")
				return wrapLabel(label, s)
			}
			ci.ch = fc.fresh("c")
			ci.v = fc.fresh("v")
			ci.ok = fc.fresh("ok")
			pre = append(pre, &ast.AssignStmt{Lhs: []ast.Expr{ci.ch}, Tok: token.DEFINE, Rhs: []ast.Expr{unparenRecv(cm.Rhs[0])}})
			pre = append(pre, &ast.DeclStmt{Decl: &ast.GenDecl{Tok: token.VAR, Specs: []ast.Spec{&ast.ValueSpec{Names: []*ast.Ident{ci.v}, Values: []ast.Expr{&ast.CallExpr{Fun: fc.rt("Zero"), Args: []ast.Expr{ci.ch}}}}}}})
			pre = append(pre, &ast.DeclStmt{Decl: &ast.GenDecl{Tok: token.VAR, Specs: []ast.Spec{&ast.ValueSpec{Names: []*ast.Ident{ci.ok}, Type: ast.NewIdent("bool")}}}})
			pre = append(pre, &ast.AssignStmt{Lhs: []ast.Expr{ast.NewIdent("_"), ast.NewIdent("_")}, Tok: token.ASSIGN, Rhs: []ast.Expr{ci.v, ci.ok}})
			rhs := []ast.Expr{ci.v}
			if len(cm.Lhs) == 2 {
				rhs = append(rhs, ci.ok)
			}
			ci.bind = []ast.Stmt{&ast.AssignStmt{Lhs: cm.Lhs, Tok: cm.Tok, Rhs: rhs}}
		default:
			fc.unsupported(s, "select case shape")
			return wrapLabel(label, s)
		}
		cases = append(cases, ci)
	}
	sel := fc.fresh("sel")
	pre = append(pre, &ast.AssignStmt{Lhs: []ast.Expr{sel}, Tok: token.DEFINE, Rhs: []ast.Expr{&ast.UnaryExpr{Op: token.SUB, X: &ast.BasicLit{Kind: token.INT, Value: "1"}}}})
	lit := func(i int) ast.Expr { return &ast.BasicLit{Kind: token.INT, Value: fmt.Sprint(i)} }
	setSel := func(i int) ast.Stmt {
		return &ast.AssignStmt{Lhs: []ast.Expr{sel}, Tok: token.ASSIGN, Rhs: []ast.Expr{lit(i)}}
	}
	comm := func(ci *caseInfo) ast.Stmt {
		switch {
		case ci.isSend:
			return &ast.SendStmt{Chan: ci.ch, Value: ci.sendVal}
		case ci.v != nil:
			return &ast.AssignStmt{Lhs: []ast.Expr{ci.v, ci.ok}, Tok: token.ASSIGN, Rhs: []ast.Expr{&ast.UnaryExpr{Op: token.ARROW, X: ci.ch}}}
		default:
			return &ast.ExprStmt{X: &ast.UnaryExpr{Op: token.ARROW, X: ci.ch}}
		}
	}
	if len(cases) > 0 {
		// poll in PRNG order
		iv := fc.fresh("i")
		var pollCases []ast.Stmt
		for i, ci := range cases {
			one := &ast.SelectStmt{Body: &ast.BlockStmt{List: []ast.Stmt{
				&ast.CommClause{Comm: comm(ci), Body: []ast.Stmt{setSel(i)}},
				&ast.CommClause{},
			}}}
			pollCases = append(pollCases, &ast.CaseClause{List: []ast.Expr{lit(i)}, Body: []ast.Stmt{one}})
		}
		poll := &ast.RangeStmt{Key: ast.NewIdent("_"), Value: iv, Tok: token.DEFINE,
			X: &ast.CallExpr{Fun: fc.rt("SelectOrder"), Args: []ast.Expr{lit(len(cases))}},
			Body: &ast.BlockStmt{List: []ast.Stmt{
				&ast.SwitchStmt{Tag: iv, Body: &ast.BlockStmt{List: pollCases}},
				&ast.IfStmt{Cond: &ast.BinaryExpr{X: sel, Op: token.GEQ, Y: lit(0)}, Body: &ast.BlockStmt{List: []ast.Stmt{&ast.BranchStmt{Tok: token.BREAK}}}},
			}}}
		pre = append(pre, poll)
	}
	// nothing ready
	var fallback ast.Stmt
	if def != nil {
		fallback = setSel(len(cases))
	} else {
		var cl []ast.Stmt
		for i, ci := range cases {
			cl = append(cl, &ast.CommClause{Comm: comm(ci), Body: []ast.Stmt{setSel(i)}})
		}
		fallback = &ast.SelectStmt{Body: &ast.BlockStmt{List: cl}}
	}
	pre = append(pre, &ast.IfStmt{Cond: &ast.BinaryExpr{X: sel, Op: token.LSS, Y: lit(0)}, Body: &ast.BlockStmt{List: []ast.Stmt{fallback}}})
	pre = append(pre, fc.yield(site+"+"))
	var bodies []ast.Stmt
	for i, ci := range cases {
		bodies = append(bodies, &ast.CaseClause{List: []ast.Expr{lit(i)}, Body: append(ci.bind, ci.cc.Body...)})
	}
	if def != nil {
		bodies = append(bodies, &ast.CaseClause{List: []ast.Expr{lit(len(cases))}, Body: def.Body})
	}
	// an unreachable default keeps a select that ended its function (every case returns) a terminating statement
	bodies = append(bodies, &ast.CaseClause{Body: []ast.Stmt{&ast.ExprStmt{X: &ast.CallExpr{Fun: ast.NewIdent("panic"),
		Args: []ast.Expr{&ast.BasicLit{Kind: token.STRING, Value: `"simgen: select without a chosen case"`}}}}}})
	var sw ast.Stmt = &ast.SwitchStmt{Tag: sel, Body: &ast.BlockStmt{List: bodies}}
	sw = wrapLabel(label, sw)
	return &ast.BlockStmt{List: append(pre, sw)}
}

func unparenRecv(e ast.Expr) ast.Expr {
	for {
		p, ok := e.(*ast.ParenExpr)
		if !ok {
			break
		}
		e = p.X
	}
	return e.(*ast.UnaryExpr).X
}

func (fc *fileCtx) write(name string) error {
	// keep only directive comments (//go:embed, //go:build, ...): positions of new nodes are
	// synthetic and ordinary comments would be misplaced by the printer
	var keep []*ast.CommentGroup
	for _, cg := range fc.file.Comments {
		var list []*ast.Comment
		for _, c := range cg.List {
			if strings.HasPrefix(c.Text, "//go:") || strings.HasPrefix(c.Text, "// +build") {
				list = append(list, c)
			}
		}
		if len(list) > 0 {
			keep = append(keep, &ast.CommentGroup{List: list})
		}
	}
	fc.file.Comments = keep
	if fc.needRT {
		astutil.AddNamedImport(fc.fset(), fc.file, "simrt", *simBase+"/simrt")
	}
	if fc.needFS {
		astutil.AddNamedImport(fc.fset(), fc.file, "simfs", *simBase+"/simfs")
	}
	var buf bytes.Buffer
	if err := (&printer.Config{Mode: printer.UseSpaces | printer.TabIndent, Tabwidth: 8}).Fprint(&buf, fc.fset(), fc.file); err != nil {
		return err
	}
	// keep possibly-unused imports alive
	src := buf.String()
	src += "\n" + keepAlive(fc.file)
	return os.WriteFile(name, []byte(src), 0o644)
}

// keepAlive emits blank uses for imports that the rewriting may have orphaned.
func keepAlive(f *ast.File) string {
	var b strings.Builder
	for _, im := range f.Imports {
		p := strings.Trim(im.Path.Value, `"`)
		name := ""
		if im.Name != nil {
			name = im.Name.Name
		}
		switch p {
		case "sync":
			if name == "" {
				name = "sync"
			}
			fmt.Fprintf(&b, "var _ %s.Once\n", name)
		case "os":
			if name == "" {
				name = "os"
			}
			fmt.Fprintf(&b, "var _ = %s.ErrNotExist\n", name)
		case "path/filepath":
			if name == "" {
				name = "filepath"
			}
			fmt.Fprintf(&b, "var _ = %s.Separator\n", name)
		case "io/ioutil":
			if name == "" {
				name = "ioutil"
			}
			fmt.Fprintf(&b, "var _ = %s.Discard\n", name)
		}
	}
	return b.String()
}
