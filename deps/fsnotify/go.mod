module github.com/fsnotify/fsnotify

go 1.13
