// Package fsnotify is the simulation stand-in for github.com/fsnotify/fsnotify v1.5.1 (linux
// backend). It mirrors the observable contract HIDI relies on: NewWatcher starts a forwarding
// routine; Add registers a non-recursive directory watch (error if the directory does not exist);
// every write()/truncate of a file in a watched directory queues one Write event, creations queue
// Create, and an event identical to the unread tail of the queue is coalesced (as the kernel's
// inotify queue does); the forwarder sends queued events on the unbuffered Events channel, giving up
// when the watcher is closed; Close makes the forwarder close Events and Errors.
// Not modelled: queue overflow (IN_Q_OVERFLOW) and the Errors path.
//
// The package is dependency-free; the harness supplies the hooks below.
package fsnotify

import (
	"errors"
	"fmt"
	"sync"
)

type Op uint32

const (
	Create Op = 1 << iota
	Write
	Remove
	Rename
	Chmod
)

func (op Op) String() string {
	s := ""
	for _, x := range []struct {
		o Op
		n string
	}{{Create, "CREATE"}, {Remove, "REMOVE"}, {Write, "WRITE"}, {Rename, "RENAME"}, {Chmod, "CHMOD"}} {
		if op&x.o != 0 {
			s += "|" + x.n
		}
	}
	if s == "" {
		return ""
	}
	return s[1:]
}

type Event struct {
	Name string
	Op   Op
}

func (e Event) String() string { return fmt.Sprintf("%q: %s", e.Name, e.Op.String()) }

var ErrEventOverflow = errors.New("fsnotify queue overflow")

// Hooks installed by the simulation harness.
var (
	// Subscribe registers fn for changes in dir; op is "create", "write", "remove" or "rename".
	Subscribe func(dir string, fn func(name string, op string)) error
	// Go starts a task of the simulation.
	Go func(site string, fn func())
	// Yield is a scheduling gate.
	Yield func(site string)
	// NewWatcherErr, when set, makes NewWatcher fail (inotify instance limit).
	NewWatcherErr error
	// Stats
	Queued, Coalesced, Delivered int
)

type Watcher struct {
	Events chan Event
	Errors chan error

	mu     sync.Mutex
	queue  []Event
	wake   chan struct{}
	done   chan struct{}
	closed bool
}

func NewWatcher() (*Watcher, error) {
	if NewWatcherErr != nil {
		return nil, NewWatcherErr
	}
	w := &Watcher{Events: make(chan Event), Errors: make(chan error), wake: make(chan struct{}, 1), done: make(chan struct{})}
	Go("fsnotify.readEvents", w.readEvents)
	return w, nil
}

func (w *Watcher) push(name string, op string) {
	var o Op
	switch op {
	case "create":
		o = Create
	case "write":
		o = Write
	case "remove":
		o = Remove
	case "rename":
		o = Rename
	default:
		return
	}
	ev := Event{Name: name, Op: o}
	w.mu.Lock()
	if w.closed {
		w.mu.Unlock()
		return
	}
	if n := len(w.queue); n > 0 && w.queue[n-1] == ev {
		Coalesced++
		w.mu.Unlock()
		return
	}
	w.queue = append(w.queue, ev)
	Queued++
	w.mu.Unlock()
	select {
	case w.wake <- struct{}{}:
	default:
	}
}

func (w *Watcher) readEvents() {
	defer close(w.Errors)
	defer close(w.Events)
	for {
		w.mu.Lock()
		var ev Event
		have := len(w.queue) > 0
		if have {
			ev = w.queue[0]
			w.queue = w.queue[1:]
		}
		w.mu.Unlock()
		if !have {
			Yield("fsnotify.wait")
			// prioritised polls first: a select over several ready cases would pick at random
			select {
			case <-w.done:
				Yield("fsnotify.done")
				return
			default:
			}
			select {
			case <-w.wake:
				Yield("fsnotify.woken")
				continue
			default:
			}
			select {
			case <-w.wake:
			case <-w.done:
				Yield("fsnotify.done")
				return
			}
			Yield("fsnotify.woken")
			continue
		}
		Yield("fsnotify.send")
		select {
		case <-w.done:
			Yield("fsnotify.done")
			return
		default:
		}
		select {
		case w.Events <- ev:
			Delivered++
		case <-w.done:
			Yield("fsnotify.done")
			return
		}
		Yield("fsnotify.sent")
	}
}

func (w *Watcher) Add(name string) error {
	w.mu.Lock()
	closed := w.closed
	w.mu.Unlock()
	if closed {
		return errors.New("inotify instance already closed")
	}
	Yield("fsnotify.Add")
	return Subscribe(name, w.push)
}

func (w *Watcher) Remove(name string) error { return nil }

func (w *Watcher) Close() error {
	Yield("fsnotify.Close")
	w.mu.Lock()
	if w.closed {
		w.mu.Unlock()
		return nil
	}
	w.closed = true
	w.mu.Unlock()
	close(w.done)
	return nil
}
