// Stub of internal/pkg/midi/driver/alsa for the simulation build: the real file needs cgo and
// librtmidi, which are not available offline; nothing under verification lives in it.
package alsa

import (
	"fmt"

	"github.com/gethiox/HIDI/internal/pkg/midi/driver"
)

func GetPorts() []driver.Port { return nil }

func PickMidiPort(n int) (driver.Port, error) { return driver.Port{}, fmt.Errorf("alsa unavailable in simulation") }

func CreatePort(name string) (driver.Port, error) { return driver.Port{}, fmt.Errorf("alsa unavailable in simulation") }
