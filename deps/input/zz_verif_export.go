package input

import (
	"context"
	"time"

	"github.com/holoplot/go-evdev"
)

// NewDeviceInfoForSim: DeviceInfo.eventName is unexported and the LED loop matches controllers by event name.
func NewDeviceInfoForSim(name, phys, event string, id InputID, types []evdev.EvType) DeviceInfo {
	return DeviceInfo{ID: id, Name: name, Phys: phys, eventName: event, CapableTypes: types}
}

// Seams of the manager world (cmd/hidi): discovery polls /dev/input and a device is opened through evdev, neither of
// which exists in the simulation. bin/simbuild.py renames the two real functions in the scratch copy
// (MonitorNewDevices -> monitorNewDevicesReal, (*Device).ProcessEvents -> processEventsReal); these wrappers take their
// names and hand over to the harness when it has installed itself. Nothing of this exists in /repo.
var (
	SimMonitorNewDevices func(ctx context.Context) <-chan Device
	SimOpenDevice        func(d *Device, ctx context.Context) (<-chan *InputEvent, error)
)

func MonitorNewDevices(ctx context.Context, stabilizationPeriod, discoveryRate time.Duration) <-chan Device {
	if SimMonitorNewDevices != nil {
		return SimMonitorNewDevices(ctx)
	}
	return monitorNewDevicesReal(ctx, stabilizationPeriod, discoveryRate)
}

func (d *Device) ProcessEvents(ctx context.Context, grab bool, absThrottle time.Duration) (<-chan *InputEvent, error) {
	if SimOpenDevice != nil {
		return SimOpenDevice(d, ctx)
	}
	return d.processEventsReal(ctx, grab, absThrottle)
}
