package input

import "github.com/holoplot/go-evdev"

// NewDeviceInfoForSim is the only declaration the simulation adds to this package (in the scratch
// copy): DeviceInfo.eventName is unexported and the LED loop matches controllers by event name.
func NewDeviceInfoForSim(name, phys, event string, id InputID, types []evdev.EvType) DeviceInfo {
	return DeviceInfo{ID: id, Name: name, Phys: phys, eventName: event, CapableTypes: types}
}
