package openrgb

import (
	"bytes"
	"encoding/binary"
)

var (
	offset8BEBits  = 1
	offset16LEBits = 2
	offset32LEBits = 4
)

const (
	commandSetClientName          = 50
	commandRequestControllerCount = 0
	commandRequestControllerData  = 1
	commandUpdateLEDs             = 1050
	commandUpdateZoneLEDs         = 1051
	commandSetCustomMode          = 1100
)

type orgbHeader struct {
	deviceID  uint32
	commandID uint32
	length    uint32
}

func readString(buf []byte, offset int) (string, int) {
	length := int(binary.LittleEndian.Uint16(buf[offset:]))
	b := buf[offset+2 : offset+length+1]

	return string(b), length + 2
}

func encodeHeader(header orgbHeader) *bytes.Buffer {
	b := bytes.NewBufferString("ORGB")

	for _, v := range []uint32{
		header.deviceID,
		header.commandID,
		header.length,
	} {
		buf := make([]byte, offset32LEBits)
		binary.LittleEndian.PutUint32(buf, v)
		b.Write(buf)
	}

	return b
}

func decodeHeader(buffer []byte) orgbHeader {
	return orgbHeader{
		binary.LittleEndian.Uint32(buffer[4:]),
		binary.LittleEndian.Uint32(buffer[8:]),
		binary.LittleEndian.Uint32(buffer[12:]),
	}
}
