package openrgb

import (
	"bytes"
	"encoding/binary"
	"fmt"
)

// Color represents an RGB color.
type Color struct {
	Red   uint8
	Green uint8
	Blue  uint8
}

func readColor(buf []byte, offset int) (Color, error) {
	c := Color{}

	for _, ptr := range []*uint8{&c.Red, &c.Green, &c.Blue} {
		reader := bytes.NewReader(buf[offset:])
		if err := binary.Read(reader, binary.BigEndian, ptr); err != nil {
			return Color{}, err
		}
		offset++
	}

	return c, nil
}

func (c Color) String() string {
	return fmt.Sprintf("rgb(%d, %d, %d);", c.Red, c.Green, c.Blue)
}
