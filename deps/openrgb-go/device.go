package openrgb

import (
	"encoding/binary"
	"fmt"
)

// Device represents a controller registered by the OpenRGB Server.
type Device struct {
	Type        uint32
	Name        string
	Description string
	Version     string
	Serial      string
	Location    string
	ActiveMode  uint32
	LEDs        []LED
	Colors      []Color
	Modes       []Mode
	Zones       []Zone
}

func readDevice(buf []byte) (Device, error) {

	var d Device
	offset := offset32LEBits

	d.Type = binary.LittleEndian.Uint32(buf[4:])
	offset += offset32LEBits

	for _, st := range []*string{
		&d.Name,
		&d.Description,
		&d.Version,
		&d.Serial,
		&d.Location,
	} {
		s, i := readString(buf, offset)
		offset += i
		*st = s
	}

	modeCount := binary.LittleEndian.Uint16(buf[offset:])
	offset += offset16LEBits

	d.ActiveMode = binary.LittleEndian.Uint32(buf[offset:])
	offset += offset32LEBits

	modes, i, err := readMode(buf, modeCount, offset)
	if err != nil {
		return Device{}, err
	}

	offset = i
	d.Modes = modes

	zoneCount := binary.LittleEndian.Uint16(buf[offset:])
	offset += offset16LEBits

	zones, i := readZones(buf, zoneCount, offset)
	d.Zones = zones
	offset = i

	ledCount := binary.LittleEndian.Uint16(buf[offset:])
	offset += offset16LEBits

	leds, i, err := readLEDs(buf, ledCount, offset)
	if err != nil {
		return Device{}, err
	}
	offset = i
	d.LEDs = leds

	colorCount := binary.LittleEndian.Uint16(buf[offset:])
	offset += offset16LEBits

	d.Colors = make([]Color, 0)
	for i := uint16(0); i < colorCount; i++ {
		color, err := readColor(buf, offset)
		if err != nil {
			return Device{}, err
		}
		d.Colors = append(d.Colors, color)
		offset += 4
	}

	return d, nil
}

func (d Device) String() string {
	return fmt.Sprintf(`%s (typ %d; ver %s; ser %s)
Mode - Active: %d; Total: %d
	%v
---`,
		d.Name, d.Type, d.Version, d.Serial,
		d.ActiveMode, len(d.Modes), d.Modes[d.ActiveMode])
}
