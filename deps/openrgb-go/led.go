package openrgb

// LED represents an LED light on a controller.
type LED struct {
	Name  string
	Value Color
}

func readLEDs(buf []byte, count uint16, offset int) ([]LED, int, error) {
	leds := make([]LED, 0)

	for ledIndex := uint16(0); ledIndex < count; ledIndex++ {
		name, i := readString(buf, offset)
		offset += i
		color, err := readColor(buf, offset)
		if err != nil {
			return nil, 0, err
		}

		offset += 4

		leds = append(leds, LED{
			Name:  name,
			Value: color,
		})
	}

	return leds, offset, nil
}
