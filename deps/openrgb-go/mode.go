package openrgb

import (
	"encoding/binary"
	"fmt"
)

// Mode is a controller's lighting mode (static, breathing, etc).
type Mode struct {
	Name      string
	Value     uint32
	Flags     uint32
	MinSpeed  uint32
	MaxSpeed  uint32
	MinColors uint32
	MaxColors uint32
	Speed     uint32
	Direction uint32
	ColorMode uint32
	Colors    []Color
}

func readMode(buf []byte, modeCount uint16, offset int) ([]Mode, int, error) {
	modes := make([]Mode, 0)
	colors := make([]Color, 0)

	for modeIndex := uint16(0); modeIndex < modeCount; modeIndex++ {
		modeName, i := readString(buf, offset)
		offset += i

		mode := Mode{Name: modeName}
		for _, ptr := range []*uint32{
			&mode.Value,
			&mode.Flags,
			&mode.MinSpeed,
			&mode.MaxSpeed,
			&mode.MinColors,
			&mode.MaxColors,
			&mode.Speed,
			&mode.Direction,
			&mode.ColorMode,
		} {
			*ptr = binary.LittleEndian.Uint32(buf[offset:])
			offset += offset32LEBits
		}

		colorLength := binary.LittleEndian.Uint16(buf[offset:])
		offset += offset16LEBits

		var ci uint16 = 0
		for ; ci < colorLength; ci++ {
			color, err := readColor(buf, offset)
			if err != nil {
				return nil, 0, err
			}
			offset += offset32LEBits
			colors = append(colors, color)
		}

		mode.Colors = colors

		modes = append(modes, mode)
	}

	return modes, offset, nil
}
func (m Mode) String() string {
	return fmt.Sprintf(`%s
	Speed : %d (%d - %d)
	ColorMode : %s
	Colors: %v`,
		m.Name,
		m.Speed, m.MinSpeed, m.MaxSpeed,
		colorMode(m.ColorMode),
		m.Colors)
}

func colorMode(mode uint32) string {
	switch mode {
	case 1:
		return "Per-LED"
	case 2:
		return "Mode-Specific"
	case 3:
		return "Random"
	default:
		return "Unidentified"
	}
}
