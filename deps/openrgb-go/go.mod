module github.com/realbucksavage/openrgb-go

go 1.14
