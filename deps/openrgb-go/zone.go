package openrgb

import (
	"encoding/binary"
	"fmt"
)

// Zone represents a controller's color zone.
type Zone struct {
	Name      string
	Type      uint32
	MinLEDs   uint32
	MaxLEDs   uint32
	TotalLEDs uint32
}

func readZones(buf []byte, count uint16, offset int) ([]Zone, int) {
	zones := make([]Zone, 0)

	for zoneIndex := uint16(0); zoneIndex < count; zoneIndex++ {
		var z Zone
		s, i := readString(buf, offset)
		z.Name = s
		offset += i

		for _, ptr := range []*uint32{
			&z.Type,
			&z.MinLEDs,
			&z.MaxLEDs,
			&z.TotalLEDs,
		} {
			*ptr = binary.LittleEndian.Uint32(buf[offset:])
			offset += offset32LEBits
		}

		matrixSize := binary.LittleEndian.Uint16(buf[offset:])
		offset += 2 + int(matrixSize)

		zones = append(zones, z)
	}

	return zones, offset
}

func (z Zone) String() string {
	return fmt.Sprintf(`%s (typ %d; LEDs %d)`, z.Name, z.Type, z.TotalLEDs)
}
