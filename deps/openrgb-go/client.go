package openrgb

import (
	"bytes"
	"encoding/binary"
	"fmt"
	"net"
)

// Dial is the only change made for the HIDI simulation: the transport seam.
var Dial = net.Dial

// Client is a TCP client that connects to the OpenRGB Server.
type Client struct {
	clientSock net.Conn
}

// Close the underlying TCP socket.
func (c *Client) Close() error {
	return c.clientSock.Close()
}

// Connect takes in the host and port of the OpenRGB server and creates a TCP socket.
// Returns an instance of `*openrgb.Client` or an error.
func Connect(host string, port int) (*Client, error) {
	addr := fmt.Sprintf("%s:%d", host, port)
	sock, err := Dial("tcp", addr)
	if err != nil {
		return nil, err
	}

	c := &Client{clientSock: sock}

	err = c.sendMessage(commandSetClientName, 0, bytes.NewBufferString("GoClient"))
	if err != nil {
		return nil, err
	}

	return c, nil
}

// GetGetControllerCount returns the total number of devices detected by OpenRGB.
// The controller count starts from 0, which means, for `n` number of controllers,
// the count will be `n-1`.
func (c *Client) GetControllerCount() (int, error) {
	err := c.sendMessage(commandRequestControllerCount, 0, nil)
	if err != nil {
		return 0, err
	}

	message, err := c.readMessage()
	if err != nil {
		return 0, err
	}
	count := int(binary.LittleEndian.Uint32(message))

	return count, nil
}

// GetDeviceController queries the OpenRGB server for a device and returns its `openrgb.Device`
// representation. The `deviceID` parameter is an index that starts from 0.
func (c *Client) GetDeviceController(deviceID int) (Device, error) {
	if err := c.sendMessage(commandRequestControllerData, deviceID, nil); err != nil {
		return Device{}, err
	}
	message, err := c.readMessage()
	if err != nil {
		return Device{}, err
	}

	d, err := readDevice(message)
	if err != nil {
		return Device{}, err
	}

	return d, nil
}

// UpdateLEDs updates multiple LEDs on device-level. Length of the `colors` parameter
// MUST match the length of `openrgb.Device.Colors`.
func (c *Client) UpdateLEDs(deviceID int, colors []Color) error {
	lenColors := len(colors)
	size := 2 + (4 * lenColors)

	colorsBuffer := make([]byte, size)
	colorsBuffer[0] = byte(lenColors)

	for i, color := range colors {
		offset := 2 + (i * 4)

		colorsBuffer[offset] = color.Red
		colorsBuffer[offset+1] = color.Green
		colorsBuffer[offset+2] = color.Blue
	}

	prefixBuffer := make([]byte, 4)
	prefixBuffer[0] = byte(size)

	cmd := bytes.NewBuffer(prefixBuffer)
	if _, err := cmd.Write(colorsBuffer); err != nil {
		return err
	}

	return c.sendMessage(commandUpdateLEDs, deviceID, cmd)
}

// UpdateZoneLEDs updates multiple LEDs on zone-level. Length of the `colors` parameter
// MUST match the length of `Colors` parameter in `openrgb.Zone`
func (c *Client) UpdateZoneLEDs(deviceID, zoneID int, colors []Color) error {
	lenColors := len(colors)
	size := 6 + (4 * lenColors)

	colorsBuffer := make([]byte, size)
	colorsBuffer[0] = byte(zoneID)
	colorsBuffer[offset32LEBits] = byte(lenColors)

	for i, color := range colors {
		offset := 6 + (i * 4)

		colorsBuffer[offset] = color.Red
		colorsBuffer[offset+1] = color.Green
		colorsBuffer[offset+2] = color.Blue
	}

	prefixBuffer := make([]byte, 4)
	prefixBuffer[0] = byte(size)

	cmd := bytes.NewBuffer(prefixBuffer)
	if _, err := cmd.Write(colorsBuffer); err != nil {
		return err
	}

	return c.sendMessage(commandUpdateLEDs, deviceID, cmd)
}

func (c *Client) sendMessage(command, deviceID int, buffer *bytes.Buffer) error {
	bufLen := 0
	if buffer != nil {
		bufLen = buffer.Len()
	}

	header := encodeHeader(orgbHeader{
		deviceID:  uint32(deviceID),
		commandID: uint32(command),
		length:    uint32(bufLen),
	})

	if buffer != nil {
		header.Write(buffer.Bytes())
	}

	_, err := c.clientSock.Write(header.Bytes())

	return err
}

func (c *Client) readMessage() ([]byte, error) {
	buf := make([]byte, 16)
	_, err := c.clientSock.Read(buf)
	if err != nil {
		return nil, err
	}

	header := decodeHeader(buf)
	buf = make([]byte, header.length)
	_, err = c.clientSock.Read(buf)

	return buf, err
}
