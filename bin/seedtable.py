#!/usr/bin/env python3
"""Regenerates the table of seeded changes in DESIGN.md (between the markers) from /verif/seeded/*/meta.json."""
import glob
import json
import os

VERIF = os.path.dirname(os.path.dirname(os.path.abspath(__file__)))
BEGIN, END = "<!-- seeded-table:begin -->", "<!-- seeded-table:end -->"


def main():
    rows = []
    caught = missed = 0
    for d in sorted(glob.glob(os.path.join(VERIF, "seeded", "*"))):
        m = json.load(open(os.path.join(d, "meta.json")))
        clause = ""
        for c in m.get("checks_run", []):
            if c["rc"] == 1 and len(c["lines"]) > 1:
                line = c["lines"][1]
                i = line.find("clause=")
                clause = line[i + 7:].split()[0]
                break
        cb = m.get("caught_by") or []
        if cb:
            caught += 1
        else:
            missed += 1
        rows.append("| %s | %s | %s | %s | %s |" % (os.path.basename(d), m.get("breaks"), (m.get("summary") or "").replace("|", "/")[:140],
                                               ", ".join(cb) if cb else "**not caught** (see note in meta.json)", clause))
    table = ("%s\n%d seeded changes, %d caught by the quick tier, %d not caught.\n\n| seeded change | breaks | what it does | caught by (quick tier) | first clause |\n|---|---|---|---|---|\n"
             % (BEGIN, len(rows), caught, missed) + "\n".join(rows) + "\n" + END)
    p = os.path.join(VERIF, "DESIGN.md")
    s = open(p).read()
    if BEGIN in s:
        s = s[:s.index(BEGIN)] + table + s[s.index(END) + len(END):]
    else:
        raise SystemExit("markers not found in DESIGN.md")
    open(p, "w").write(s)
    print("%d rows (%d caught, %d not)" % (len(rows), caught, missed))


if __name__ == "__main__":
    main()
