#!/bin/sh
# Builds the framework from files on disk only (offline): the instrumenter, and a first build of the
# simulation workers from /repo's current working tree (later checks rebuild whenever /repo changes).
set -e
cd "$(dirname "$0")/.."
export GOFLAGS=-mod=mod GOPROXY=off GOSUMDB=off GOTOOLCHAIN=local
python3 bin/simbuild.py
