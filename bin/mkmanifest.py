#!/usr/bin/env python3
"""Regenerates /verif/MANIFEST.json from the tables below (kept next to bin/check's property table)."""
import json
import os
import subprocess

VERIF = os.path.dirname(os.path.dirname(os.path.abspath(__file__)))

TECH = "deterministic simulation with fault injection: seeded scheduler over testing/synctest, instrumented copy of the real code, reference-model oracle"

CHECKS = {
    "C01": dict(level="fault_enumeration", ref="DESIGN.md §4 C01",
                text="Seeded simulated runs of the real Device in lock-step with a receiver-side reference model; the disconnect fault is enumerated "
                     "over the prefixes of every sampled history (thorough: every prefix; quick: the end and three PRNG-chosen prefixes). Evidence over "
                     "the sampled histories/configurations, exhaustive only in the unplug position per history. A few per cent of the runs use the manager world W7 (real Manager.Run; see C19): nothing is left sounding after a device was unplugged or the devices were reloaded while a key was held.",
                note="Trusted: the simgen rewriting (DESIGN Appendix A), synctest's fake clock, the receiver model (Note On/Off/CC123 semantics). "
                     "The defects found here (three stuck-note histories) were repaired in /repo; known_findings.jsonl holds no open finding."),
    "C02": dict(level="exploration", ref="DESIGN.md §4 C02",
                text="Seeded histories with state-changing actions between press and release; per-step comparison with the model's pinned (channel, pitch) "
                     "and the rule that state actions emit nothing.",
                note="Trusted: simgen rewriting, lock-step attribution via scheduler idle points."),
    "C03": dict(level="exploration", ref="DESIGN.md §4 C03",
                text="Seeded histories of up to seven keys colliding on few pitches (directly and through transposition/channel changes) in the four modes; "
                     "message-for-message comparison with a holder-count reference model.",
                note="Trusted: simgen rewriting; model written from the statement."),
    "C04": dict(level="exploration", ref="DESIGN.md §4 C04",
                text="Seeded histories with long action runs (|octave| past 11, |semitone| up to ~110), pair resets, saturation; note/channel/velocity arithmetic "
                     "and Device.State() compared with an integer reference model after every step.",
                note="Bounded to <= 100 octave and <= 110 semitone actions per run (the 8-bit device state wraps at the 128th; recorded in DESIGN 13a as known and not repaired). "
                     "Hats that trigger actions are mixed with action keys; never generated, because the statement speaks of both KEYS of a pair: a key and a hat holding the same action "
                     "or the two halves of one pair, a hat deflected while a complete key pair is held. An action may have a second key. In a share of the hat runs one axis is a stick: one deflection is one press, "
                     "however many positions beyond half travel it passes through."),
    "C05": dict(level="exploration", ref="DESIGN.md §4 C05",
                text="A byte-level well-formedness monitor on every message of seeded runs over corner configurations that the real parser accepts "
                     "(rejected ones are counted as skipped); the same monitor runs inside every other W1 check.",
                note="Only parser-accepted configurations reach the device; axis values stay within the reported [min,max]."),
    "C06": dict(level="exploration", ref="DESIGN.md §4 C06",
                text="Sweeps of raw axis positions (all values of 8-bit and hat axes, edges/deadzone edges/random values of 16-bit axes) in ascending, descending and "
                     "shuffled order against an exact-rational transfer function: +-1 step, exact end stops and rest values, monotonicity, duplicate suppression. "
                     "Neither schedule nor fault matters to this property; it is decided by the same event-stream-vs-reference loop.",
                note="Positions within 1e-9 of a deadzone boundary are not asserted (float vs exact arithmetic); deadzones outside [0,1] are outside the model; axes whose reported minimum is "
                     "above 0 are not generated (DESIGN 13a). The first position of an axis is transmitted whatever it is; an axis without known range transmits nothing. A position that repeats the "
                     "previous one need not be sent again only while it would go where the previous one went: after a channel or mapping action it is judged by what the receiver holds at the "
                     "destination that is current then."),
    "C07": dict(level="exploration", ref="DESIGN.md §4 C07",
                text="Seeded position sequences on 1-3 bidirectional axes (signed and centred-unsigned, offsets, jumps across the centre, exact centre) interleaved with "
                     "cc_learning; receiver-side invariants after every processed event.",
                note="A third of the runs keep the stick deflected across channel and mapping changes (other mappings mirror or shift the controller pair), use one controller number on two "
                     "channels, or start from a receiver that an earlier session left non-zero. The two sides of an axis are always distinct (channel, number) pairs."),
    "C08": dict(level="exploration", ref="DESIGN.md §4 C08",
                text="Seeded sequences on hat and stick axes emulating keys (two-sided and one-sided, flipped, signed/unsigned) interleaved with transposition and channel "
                     "actions; direction state machine with hysteresis, pinned Note Off, silence where no note is configured.",
                note="Positions within 1e-6 of the 0.5/0.49 thresholds are not generated. On a jump between directions the Note Off must precede the Note On; between 49 % and 50 % of the other side "
                     "the side that was left is off. Two sub-handlers reporting the same axis code are part of the workload."),
    "C13": dict(level="exploration", ref="DESIGN.md §4 C13",
                text="Panic injected at PRNG-chosen points of collision-rich histories in all modes and channels; the panic step must be exactly CC123 + 128 Note Offs on "
                     "the current channel and the continuation must equal the model that ignores the panic.",
                note="Panic is injected also while an up/down pair of action keys is held, by key and by a hat whose role differs between mappings, and with MIDI input of every kind arriving. "
                     "The emitter's own slices are kept and compared at the end of the run (a consumer a few messages behind must read what was emitted)."),
    "C14": dict(level="exploration", ref="DESIGN.md §4 C14",
                text="Exit sequences of length 0-3 sharing keys with notes and actions, all press/release orders mixed with other keys; signal count, silent completing "
                     "press and unchanged state checked per step.",
                note="Further presses while the whole sequence stays held are not generated (the statement is silent about them). At a third of the completing presses the one-slot signal "
                     "channel already holds an unread signal."),
    "C15": dict(level="exploration", ref="DESIGN.md §4 C15",
                text="Seeded schedules of the real relay goroutines and the real fan-out with concurrent emitters, a numbered input stream and consumers that attach, "
                     "detach, read slowly or stop reading; oracles over the recorded history stamped with scheduler sequence numbers: exactly-once, per-emitter FIFO, "
                     "real-time order at the port, gap-free interval per consumer with attach/detach bounds, bounded completion of DespawnOutput; a quarter of the runs use the -race binary, in which an unsynchronised access to the fan-out's outputs map (both stacks inside DynamicFanOut) is a violation. A twentieth of the runs use the manager world W7 (real Manager.Run; see C19): device removal completes (empty device table, Run returns) with MIDI-input bursts in flight.",
                note="Context stays alive (shutdown ordering is not part of the statement). The defect found here (a consumer that stopped reading blocks the fan-out and "
                     "DespawnOutput) was repaired in /repo; its profile is an ordinary profile now. Profiles: responsive, stalled-consumer, churn."),
    "C16": dict(level="exploration", ref="DESIGN.md §4 C16",
                text="Seeded schedules of 1-3 real devices (event loop, MIDI-in tracker, LED loop against a fake OpenRGB server) with unplug at PRNG-chosen moments and "
                     "injected peer faults, built with -race: bounded termination, no live child goroutines, the race detector as happens-before monitor (the "
                     "scheduler's own synchronisation is hidden from it), solo-vs-together differential for cross-talk."
                     " A tenth of the runs use the manager world W7: the real Manager.Run (watcher, loader, fan-out, one real device per connected input device) against a harness that is device discovery, the evdev source of every device, the MIDI port and a user who plugs, unplugs, plays and saves configuration files; there: nothing left sounding after a device's stream ended, an empty device table once everything is unplugged, Run returns after cancellation and leaves no goroutine.",
                note="Servers answer with bounded delays (a server stalled forever is outside the statement). Race reports without a frame in HIDI abort with exit 2."),
    "C17": dict(level="exploration", ref="DESIGN.md §4 C17",
                text="Lock-step runs of a real device with the LED loop connected to a fake OpenRGB server (real wire protocol over net.Pipe, sysfs stub): after each key / "
                     "MIDI-in step the last frame is compared with a reference frame function of the model state; the final frame after unplug must be all red.",
                note="Exact clauses for key colours, unavailable, active, active_external, red-on-disconnect; relational (learned per run) for channel colours and the "
                     "octave/semitone/mapping/channel keys; where several highlights apply to one LED any of them is accepted; panic/multinote key colours, unmapped keys and "
                     "the mapping named Control are not asserted."),
    "C18": dict(level="fault_enumeration", ref="DESIGN.md §4 C18",
                text="The real updateHIDIConfiguration on generated hidi-config trees on the simulated file system: fault-free run (user files byte-identical, every "
                     "embedded factory file restored, blacklist created only if missing, whole template tree when the directory is absent), second run with zero mutating "
                     "operations, then a crash before EVERY mutating file-system operation of the fault-free run (enumerated per tree) plus sampled torn writes, power "
                     "loss, EIO/ENOSPC/EACCES, each followed by a clean run that must restore the factory files and leave user files untouched.",
                note="Trusted: simfs models os.OpenFile/Mkdir/Stat/ReadFile/Write faithfully (flags, EEXIST/ENOENT/EISDIR); trees in which a factory path is occupied by an entry of "
                     "the wrong type (file vs directory) are not generated."),
    "C09": dict(level="exploration", ref="DESIGN.md §4 C09",
                text="The real loader (LoadDeviceConfigs -> ParseData -> go-toml) and the real LoadHIDIConfig on file contents produced by user-style edit histories of "
                     "generated valid configurations, storage faults (truncation, bit flips, torn saves, zeroed ranges), injected read errors, and - in the concurrent part - "
                     "reloads triggered by the real watcher while the user is in the middle of a multi-write save; a recovered panic is the violation.",
                note="Bounded quantifier, stated in DESIGN: contents reachable from valid files by <= 6 edits and one storage fault; arbitrary byte strings are not sampled "
                     "(the decoder rejects them at the first token; that is a fuzzer's job). 'Never hangs' is covered by the watchdog only."),
    "C10": dict(level="exploration", ref="DESIGN.md §4 C10",
                text="Generated configurations using every feature of the format are loaded through the real loader and compared, on a semantic projection, with an expectation "
                     "built directly from the structured description; every single-field invalidation of the statement's list must make the file absent from the loaded set. "
                     "ParseData is a pure function: the simulator contributes only the path file-on-sim-disk -> loader; this is input generation and is labelled so.",
                note="The expectation never goes through the parser. Sub-handler names and identifiers are unique per file."),
    "C12": dict(level="exploration", ref="DESIGN.md §4 C12",
                text="Generated hidi-config trees (every presence combination of exact/default/other/broken/non-TOML files in the four directories, nested directories, "
                     "unreadable files, a missing or unreadable directory injected through the file-system seam) loaded with the real LoadDeviceConfigs and queried with "
                     "FindConfig for keyboard, joystick, mouse and unknown devices; compared with a reference precedence over what is present and valid at read time."
                     " A few per cent of the runs use the manager world W7: the real Manager.Run (watcher, loader, fan-out, one real device per connected input device) against a harness that is device discovery, the evdev source of every device, the MIDI port and a user who plugs, unplugs, plays and saves configuration files; there: the note a connected device plays is that of the file the precedence order selects among the files that parse.",
                note="Identifiers are unique per directory (the statement does not say which of two equal identifiers wins). A directory problem may surface as an error or as an "
                     "empty class - both are accepted, a panic is not."),
    "C19": dict(level="exploration", ref="DESIGN.md §4 C19",
                text="Seeded schedules of the real DetectDeviceConfigChanges over a simulated inotify/fsnotify: user writes (single/multi write(), append, create, atomic rename, "
                     "remove, nested) to TOML and look-alike names, a prompt or late consumer, cancellation at any time: every in-place modification of a *.toml file is followed "
                     "by a notification, no notification without one, never more notifications than write operations, the stream closes after cancel. "
                     "In a share of the runs the consumer stops reading at the moment of the shutdown (as Manager.Run does; the watcher and everything it started must end all the same), "
                     "the shutdown comes in the same instant as a user operation, the consumer is seconds late, or the user writes as soon as DetectDeviceConfigChanges has returned."
                     " A fifth of the runs use the manager world W7: the real Manager.Run (watcher, loader, fan-out, one real device per connected input device) against a harness that is device discovery, the evdev source of every device, the MIDI port and a user who plugs, unplugs, plays and saves configuration files; there: a save (possibly followed by a second one inside the reload it caused, or written some time after the truncation) is followed by a new discovery cycle and, checked by a key tap on every connected device after every save, the saved content is in force for the reconnected devices; unrelated files cause no reload; saves right before the shutdown leave nothing running.",
                note="fsnotify and the kernel are replaced by a stub that mirrors fsnotify 1.5.1's observable contract; its Errors path and queue overflow are not modelled."),
    "C20": dict(level="exploration", ref="DESIGN.md §4 C20",
                text="The real input.Normalize on generated handler multisets in six discovery orders, each with a PRNG map-iteration order: partition, grouping by physical "
                     "location, device type by the stated rule over the per-handler classification, equality of the result across orders. Apart from the two order seams this "
                     "is a pure function; claimed at low strength.",
                note="Handlers cannot be opened in the sandbox (the property allows it), so names and AbsInfos are not compared."),
}

NA = {"C11": "StringToNote / NoteToPitch / NoteToOctave are pure functions of one short string or one byte: no state, history, schedule, clock, I/O or fault for a simulator to "
             "control; deciding it means enumerating strings, which is not deterministic simulation (DESIGN.md §5). C10's rejection clause feeds note-name typos through the "
             "loader, but that is C10's evidence, not a claim on C11."}

PROPS = [json.loads(l) for l in open(os.path.join(VERIF, "properties.jsonl"))]


def main():
    checks = []
    for p in PROPS:
        pid = p["id"]
        if pid not in CHECKS:
            continue
        c = CHECKS[pid]
        checks.append(dict(
            property_id=pid,
            quick_cmd="bin/check %s quick" % pid,
            thorough_cmd="bin/check %s thorough" % pid,
            evidence_file="/verif/evidence/%s.json" % pid,
            replay_cmd_template="bin/check replay {path}",
            engine="hidi-dsim",
            level_claimed=dict(category=c["level"], text=c["text"], design_ref=c["ref"]),
            level_note=c["note"],
            technique=c.get("technique", TECH),
        ))
    na = []
    for p in PROPS:
        pid = p["id"]
        if pid in CHECKS:
            continue
        na.append(dict(property_id=pid, reason=NA.get(pid, "check not built yet (work in progress)")))
    m = dict(
        version=1,
        setup_cmd="bin/setup.sh",
        hooks=dict(
            guard="none: /repo carries no hooks; every seam is added to a scratch copy of /repo's working tree at check time (tool/cmd/simgen)",
            enable="bin/check copies /repo's working tree to tmpfs, instruments the copy (simgen), adds the simulation runtime (sim/) and patched peers (deps/) and builds the worker binaries with go1.26.8",
            baseline_off_cmd="bin/baseline_check.sh",
            source_commits=[],
            add_only=True,
        ),
        engines=[dict(name="hidi-dsim", path="/verif/sim", serves_properties=sorted(CHECKS),
                      kind_free_text="deterministic simulator: seeded scheduler (sim/simrt) over testing/synctest, in-memory fault-injecting file system (sim/simfs), "
                                     "AST instrumenter (tool/cmd/simgen), reference models (sim/model), worlds (sim/worlds), driver (bin/check)")],
        checks=checks,
        not_applicable=na,
        notes="Violations are written to /verif/replays/<property>-<seed>.json and replayed with `bin/check replay <file>`. Known findings: /verif/known_findings.jsonl.",
    )
    json.dump(m, open(os.path.join(VERIF, "MANIFEST.json"), "w"), indent=1)
    subprocess.call(["python3-vt", "-c",
                     "import json,jsonschema;jsonschema.validate(json.load(open('%s/MANIFEST.json')),json.load(open('/root/.vp/MANIFEST.schema.json')));print('MANIFEST ok')" % VERIF])


if __name__ == "__main__":
    main()
