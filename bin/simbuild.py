#!/usr/bin/env python3
"""Build step of the HIDI simulation checks.

Copies /repo's *current working tree* to a scratch directory (tmpfs), instruments the copy with
simgen, drops the simulation runtime, the worlds and the patched peer packages into it, builds
the worker binaries and caches them under /verif/.cache/<hash of everything that went in>.
/repo itself is never modified.
"""
import fcntl
import hashlib
import json
import os
import shutil
import subprocess
import sys
import time

VERIF = os.path.dirname(os.path.dirname(os.path.abspath(__file__)))
REPO = os.environ.get("VERIF_REPO", "/repo")
CACHE = os.path.join(VERIF, ".cache")
GO = "go1.26.8"

GOENV = dict(os.environ, GOFLAGS="-mod=mod", GOPROXY="off", GOSUMDB="off", GOTOOLCHAIN="local",
             CGO_ENABLED="1")


class BuildError(Exception):
    pass


def _walk_files(root, skip_dirs=(".git",)):
    for d, dirs, files in os.walk(root):
        dirs[:] = sorted(x for x in dirs if x not in skip_dirs)
        for f in sorted(files):
            yield os.path.join(d, f)


# VERIF_COVER=1: statement-coverage build of the worker binaries (bin/coverage.py only)
COVER = os.environ.get("VERIF_COVER") == "1"
COVERFLAGS = ["-cover", "-covermode=atomic", "-coverpkg=github.com/gethiox/HIDI/internal/...,github.com/gethiox/HIDI/cmd/..."] if COVER else []


def tree_hash():
    h = hashlib.sha256()
    for base, skip in ((REPO, (".git",)), (os.path.join(VERIF, "sim"), ()), (os.path.join(VERIF, "deps"), ()),
                       (os.path.join(VERIF, "tool"), ())):
        for p in _walk_files(base, skip):
            rel = os.path.relpath(p, base)
            try:
                with open(p, "rb") as fh:
                    data = fh.read()
            except OSError:
                continue
            h.update(base.encode() + b"\0" + rel.encode() + b"\0" + hashlib.sha256(data).digest())
    if COVER:
        h.update(b"cover")
    return h.hexdigest()[:20]


def run(cmd, cwd=None, env=None, what=""):
    p = subprocess.run(cmd, cwd=cwd, env=env or GOENV, stdout=subprocess.PIPE, stderr=subprocess.STDOUT, text=True)
    if p.returncode != 0:
        raise BuildError("%s failed (%s):\n%s" % (what or cmd[0], " ".join(cmd), p.stdout[-6000:]))
    return p.stdout


def ensure_simgen():
    out = os.path.join(CACHE, "bin", "simgen")
    src = os.path.join(VERIF, "tool")
    stamp = out + ".stamp"
    h = hashlib.sha256()
    for p in _walk_files(src):
        h.update(open(p, "rb").read())
    want = h.hexdigest()
    if os.path.exists(out) and os.path.exists(stamp) and open(stamp).read() == want:
        return out
    os.makedirs(os.path.dirname(out), exist_ok=True)
    run([GO, "build", "-o", out, "./cmd/simgen"], cwd=src, what="build simgen")
    open(stamp, "w").write(want)
    return out


def prune_cache(keep):
    try:
        ents = [e for e in os.listdir(CACHE) if e.startswith("t-")]
    except OSError:
        return
    ents.sort(key=lambda e: os.path.getmtime(os.path.join(CACHE, e)))
    for e in ents[:-8]:
        if e != keep:
            shutil.rmtree(os.path.join(CACHE, e), ignore_errors=True)


def build(verbose=False, need_race=True):
    """Returns the cache directory holding worlds.test, worlds_race.test, hidimain.test, simgen.json."""
    os.makedirs(CACHE, exist_ok=True)
    lock = open(os.path.join(CACHE, "lock"), "w")
    fcntl.flock(lock, fcntl.LOCK_EX)
    try:
        key = "t-" + tree_hash()
        out = os.path.join(CACHE, key)
        if os.path.exists(os.path.join(out, "ok")):
            os.utime(out)
            return out
        t0 = time.time()
        simgen = ensure_simgen()
        shutil.rmtree(out, ignore_errors=True)
        os.makedirs(out)
        base = "/dev/shm" if os.path.isdir("/dev/shm") else os.environ.get("TMPDIR", "/tmp")
        scratch = os.path.join(base, "hidi-verif-%d" % os.getpid())
        shutil.rmtree(scratch, ignore_errors=True)
        try:
            src = os.path.join(scratch, "src")
            shutil.copytree(REPO, src, ignore=shutil.ignore_patterns(".git"), symlinks=True)
            # files that are not part of what is simulated
            for p in list(_walk_files(src)):
                if p.endswith("_test.go"):
                    os.remove(p)
            if os.path.exists(os.path.join(src, "build.go")):
                os.remove(os.path.join(src, "build.go"))
            shutil.copy(os.path.join(VERIF, "deps", "alsa", "alsa.go"),
                        os.path.join(src, "internal/pkg/midi/driver/alsa/alsa.go"))
            shutil.copy(os.path.join(VERIF, "deps", "input", "zz_verif_export.go"),
                        os.path.join(src, "internal/pkg/input/zz_verif_export.go"))
            # seams of the manager world: the two functions that need /dev/input give their names to wrappers
            for rel, old, new in (("internal/pkg/input/manager.go", "func MonitorNewDevices(", "func monitorNewDevicesReal("),
                                  ("internal/pkg/input/device.go", "func (d *Device) ProcessEvents(", "func (d *Device) processEventsReal(")):
                path = os.path.join(src, rel)
                text = open(path).read()
                if text.count(old) != 1:
                    raise BuildError("seam %r not found exactly once in %s" % (old, rel))
                open(path, "w").write(text.replace(old, new))
            # peers
            deps = os.path.join(src, "_verifdeps")
            shutil.copytree(os.path.join(VERIF, "deps", "openrgb-go"), os.path.join(deps, "openrgb-go"))
            shutil.copytree(os.path.join(VERIF, "deps", "fsnotify"), os.path.join(deps, "fsnotify"))
            run([GO, "mod", "edit",
                 "-replace", "github.com/realbucksavage/openrgb-go=./_verifdeps/openrgb-go",
                 "-replace", "github.com/fsnotify/fsnotify=./_verifdeps/fsnotify"], cwd=src, what="go mod edit")
            # simulation runtime + worlds
            shutil.copytree(os.path.join(VERIF, "sim"), os.path.join(src, "verifsim"),
                            ignore=shutil.ignore_patterns("hidimain"))
            # instrument
            run([simgen, "-dir", src, "-summary", os.path.join(out, "simgen.json")], cwd=src, what="simgen")
            hm = os.path.join(VERIF, "sim", "hidimain")
            if os.path.isdir(hm):
                for f in os.listdir(hm):
                    if f.endswith(".go"):
                        shutil.copy(os.path.join(hm, f), os.path.join(src, "cmd/hidi", "zz_verif_" + f))
            # build workers
            run([GO, "vet", "-vettool=/bin/true", "./verifsim/..."], cwd=src, what="typecheck") if False else None
            run([GO, "test", "-vet=off"] + COVERFLAGS + ["-c", "-o", os.path.join(out, "worlds.test"), "./verifsim/worlds"], cwd=src,
                what="build worlds")
            if need_race:
                run([GO, "test", "-vet=off", "-race"] + COVERFLAGS + ["-c", "-o", os.path.join(out, "worlds_race.test"), "./verifsim/worlds"],
                    cwd=src, what="build worlds (-race)")
            if os.path.isdir(hm):
                run([GO, "test", "-vet=off"] + COVERFLAGS + ["-c", "-o", os.path.join(out, "hidimain.test"), "./cmd/hidi"], cwd=src,
                    what="build hidimain")
            if os.environ.get("VERIF_KEEP_SCRATCH"):
                keep = os.environ["VERIF_KEEP_SCRATCH"]
                shutil.rmtree(keep, ignore_errors=True)
                shutil.copytree(src, keep)
        finally:
            shutil.rmtree(scratch, ignore_errors=True)
        json.dump({"build_s": round(time.time() - t0, 1), "key": key}, open(os.path.join(out, "build.json"), "w"))
        open(os.path.join(out, "ok"), "w").write("ok")
        prune_cache(key)
        if verbose:
            print("built %s in %.1fs" % (key, time.time() - t0), file=sys.stderr)
        return out
    finally:
        fcntl.flock(lock, fcntl.LOCK_UN)
        lock.close()


if __name__ == "__main__":
    try:
        print(build(verbose=True))
    except BuildError as e:
        print("BUILD-ERROR:", e, file=sys.stderr)
        sys.exit(2)
