#!/usr/bin/env python3
"""Statement coverage of gethiox/HIDI reached by the simulation worlds (diagnostic, not a registered check).

  bin/coverage.py [props...]       default: every claimed property, quick tier

Builds the worker binaries with `go test -cover` (separate cache entry), runs the quick tier of the given properties
with GOCOVERDIR set, merges the counters and writes coverage/summary.txt (per function) and coverage/uncovered.txt
(source lines of the instrumented scratch copy no world executed). Line numbers refer to the instrumented copy kept
under /dev/shm/hidi-verif-covsrc while this script runs.
"""
import json
import os
import re
import shutil
import subprocess
import sys

VERIF = os.path.dirname(os.path.dirname(os.path.abspath(__file__)))
GO = "/opt/veriftools/go1.26.8/bin/go"


def main():
    props = sys.argv[1:] or [c["property_id"] for c in json.load(open(os.path.join(VERIF, "MANIFEST.json")))["checks"]]
    covdir = "/dev/shm/hidi-verif-cov"
    src = "/dev/shm/hidi-verif-covsrc"
    shutil.rmtree(covdir, ignore_errors=True)
    os.makedirs(covdir)
    env = dict(os.environ, VERIF_COVER="1", GOCOVERDIR=covdir, VERIF_KEEP_SCRATCH=src, VERIF_REPO=os.environ.get("VERIF_REPO", "/repo"),
               VERIF_EVIDENCE_DIR=os.path.join(VERIF, ".cache", "evidence-coverage"))
    # force a fresh coverage build so that the instrumented source is kept for the line report
    os.environ.update(VERIF_COVER="1")
    sys.path.insert(0, os.path.join(VERIF, "bin"))
    import simbuild
    shutil.rmtree(os.path.join(simbuild.CACHE, "t-" + simbuild.tree_hash()), ignore_errors=True)
    for p in props:
        r = subprocess.run([os.path.join(VERIF, "bin", "check"), p, "quick"], env=env, cwd=VERIF, stdout=subprocess.PIPE, stderr=subprocess.STDOUT, text=True)
        print(p, "rc=%d" % r.returncode, r.stdout.strip().splitlines()[-1:] or "")
    out = os.path.join(VERIF, "coverage")
    os.makedirs(out, exist_ok=True)
    goenv = dict(os.environ, GOFLAGS="-mod=mod", GOPROXY="off", GOSUMDB="off", GOTOOLCHAIN="local")
    prof = os.path.join(covdir, "profile.txt")
    subprocess.run([GO, "tool", "covdata", "textfmt", "-i=" + covdir, "-o=" + prof], check=True, env=goenv)
    # per function
    r = subprocess.run([GO, "tool", "cover", "-func=" + prof], cwd=src, env=goenv, stdout=subprocess.PIPE, stderr=subprocess.STDOUT, text=True)
    lines = [l for l in r.stdout.splitlines() if "/verifsim/" not in l and "zz_verif" not in l]
    open(os.path.join(out, "summary.txt"), "w").write("\n".join(lines) + "\n")
    # uncovered blocks -> source lines
    unc = {}
    tot = cov = 0
    for l in open(prof):
        m = re.match(r"(.+):(\d+)\.(\d+),(\d+)\.(\d+) (\d+) (\d+)$", l.strip())
        if not m or "/verifsim/" in m.group(1) or "zz_verif" in m.group(1):
            continue
        f, l0, _, l1, _, n, c = m.groups()
        tot += int(n)
        if int(c) > 0:
            cov += int(n)
        else:
            unc.setdefault(f, []).append((int(l0), int(l1)))
    with open(os.path.join(out, "uncovered.txt"), "w") as fh:
        fh.write("statements %d covered %d (%.1f%%)\n" % (tot, cov, 100.0 * cov / max(tot, 1)))
        for f in sorted(unc):
            rel = f.replace("github.com/gethiox/HIDI/", "")
            try:
                srcl = open(os.path.join(src, rel)).read().splitlines()
            except OSError:
                srcl = []
            fh.write("\n== %s\n" % rel)
            for l0, l1 in sorted(set(unc[f])):
                for i in range(l0, l1 + 1):
                    if i - 1 < len(srcl):
                        fh.write("%5d  %s\n" % (i, srcl[i - 1]))
                fh.write("      --\n")
    print("statements %d covered %d (%.1f%%) -> %s" % (tot, cov, 100.0 * cov / max(tot, 1), out))
    shutil.rmtree(covdir, ignore_errors=True)
    shutil.rmtree(src, ignore_errors=True)


if __name__ == "__main__":
    main()
