#!/bin/sh
# Runs gethiox/HIDI's own test suite on /repo (no simulation hooks exist in /repo, so this is also the
# "guard off" baseline) and compares with the pinned baseline: prints the tests whose result differs.
cd /repo || exit 2
export GOFLAGS=-mod=mod GOPROXY=off GOSUMDB=off
go test -vet=off -count=1 -json ./... 2>/dev/null | python3 -c "
import sys,json
res={}
for l in sys.stdin:
    try: e=json.loads(l)
    except Exception: continue
    if e.get('Test') and e.get('Action') in ('pass','fail'):
        res[e['Package']+'::'+e['Test']]=e['Action']
base=json.load(open('/root/.vp/BASELINE.json'))
bad=[t for t in base['stable_pass'] if res.get(t)!='pass']
print('passed %d of %d baseline tests' % (len(base['stable_pass'])-len(bad), len(base['stable_pass'])))
for t in bad: print('NOT PASSING:', t)
sys.exit(1 if bad else 0)
"
