#!/usr/bin/env python3
"""Re-runs the checks against every stored seeded change (regression corpus for the checks themselves).

  bin/seedrerun.py <worktree> [<worktree> ...] [-- <name-prefix> ...]

Each worktree is a scratch git worktree of /repo at /repo's HEAD (outside /repo and /verif); the changes are
distributed over them and evaluated in parallel with bin/seedeval.py in SEED_SKIP_CONFIRM mode (the patch is applied in
the worktree and the checks are pointed at it through VERIF_REPO; /repo itself is never touched). Every change is
checked with its own property and with the properties that caught it before. meta.json of each change is rewritten.
"""
import json
import os
import subprocess
import sys
import threading

VERIF = os.path.dirname(os.path.dirname(os.path.abspath(__file__)))


def main():
    args = sys.argv[1:]
    pref = []
    if "--" in args:
        i = args.index("--")
        args, pref = args[:i], args[i + 1:]
    wts = args
    names = sorted(n for n in os.listdir(os.path.join(VERIF, "seeded")) if os.path.isdir(os.path.join(VERIF, "seeded", n)))
    if pref:
        names = [n for n in names if any(n.startswith(p) for p in pref)]
    lock = threading.Lock()
    res = {}

    def work(wt):
        while True:
            with lock:
                if not names:
                    return
                n = names.pop(0)
            d = os.path.join(VERIF, "seeded", n)
            meta = json.load(open(os.path.join(d, "meta.json")))
            prop = n.split("-")[0]
            extra = [p for p in (meta.get("caught_by") or []) if p != prop]
            env = dict(os.environ, SEED_SKIP_CONFIRM="1", SEED_DST=n)
            p = subprocess.run([sys.executable, os.path.join(VERIF, "bin", "seedeval.py"), prop, d, wt] + extra, env=env, stdout=subprocess.PIPE, stderr=subprocess.STDOUT, text=True)
            try:
                v = json.loads(p.stdout[p.stdout.index("{"):])
            except Exception:
                v = dict(error=p.stdout[-500:])
            with lock:
                res[n] = v
                if v.get("stale"):
                    st = "STALE (patch does not apply to HEAD)"
                elif "error" in v:
                    st = "ERROR " + v["error"]
                else:
                    infra = [c["cmd"] for c in v.get("checks", []) if c["rc"] not in (0, 1)]
                    st = "caught_by=%s" % v.get("caught_by") + (" INFRA in %s" % infra if infra else "") + ("" if v.get("caught_by") or meta.get("note") else "  <-- NOT CAUGHT")
                print("%-12s %s" % (n, st), flush=True)

    ts = [threading.Thread(target=work, args=(wt,)) for wt in wts]
    for t in ts:
        t.start()
    for t in ts:
        t.join()
    caught = sum(1 for v in res.values() if v.get("caught_by"))
    print("%d changes, %d caught, %d stale, %d not caught" % (len(res), caught, sum(1 for v in res.values() if v.get("stale")),
                                                            sum(1 for v in res.values() if not v.get("stale") and not v.get("caught_by"))))


if __name__ == "__main__":
    main()
