#!/usr/bin/env python3
"""Confirms a seeded change produced by a sub-agent and runs the checks against it.

  bin/seedeval.py <property> <dir-with-patch.diff/demo_test.go/meta.json> <worktree> [check-property ...]

1. in the scratch worktree: demo passes on the clean tree; patch applies; existing suite still passes; demo fails with the patch
2. applies the patch to /repo, runs bin/check for the property (and any extra ones), undoes it (git checkout -- .)
3. prints a JSON verdict and, when confirmed, stores the change under /verif/seeded/<property>-<name>/
"""
import json
import os
import shutil
import subprocess
import sys

VERIF = os.path.dirname(os.path.dirname(os.path.abspath(__file__)))
ENV = dict(os.environ, GOFLAGS="-mod=mod", GOPROXY="off", GOSUMDB="off")


def sh(cmd, cwd=None, env=None, timeout=1800):
    p = subprocess.run(cmd, cwd=cwd, env=env or ENV, shell=isinstance(cmd, str), stdout=subprocess.PIPE, stderr=subprocess.STDOUT, text=True, timeout=timeout)
    return p.returncode, p.stdout


def suite(wt):
    rc, out = sh("go test -vet=off -count=1 -json ./... 2>/dev/null", cwd=wt)
    res = {}
    for l in out.splitlines():
        try:
            e = json.loads(l)
        except Exception:
            continue
        if e.get("Test") and e.get("Action") in ("pass", "fail"):
            res[e["Package"] + "::" + e["Test"]] = e["Action"]
    base = json.load(open("/root/.vp/BASELINE.json"))
    return [t for t in base["stable_pass"] if res.get(t) != "pass"]


def main():
    prop, mdir, wt = sys.argv[1], os.path.abspath(sys.argv[2]), sys.argv[3]
    extra = sys.argv[4:]
    meta = json.load(open(os.path.join(mdir, "meta.json")))
    name = os.environ.get("SEED_PREFIX", "") + os.path.basename(mdir)
    verdict = dict(property=prop, name=name, summary=meta.get("summary"))
    sh("git checkout -- . && git clean -fdq", cwd=wt)
    if os.environ.get("SEED_SKIP_CONFIRM"):
        # re-run of the checks against a change that was confirmed before (bin/seedrerun.py)
        rc, out = sh(["git", "apply", "--check", os.path.join(mdir, "patch.diff")], cwd=wt)
        if rc != 0:
            print(json.dumps(dict(verdict, confirmed=False, stale=True)))
            return
        return run_checks(prop, mdir, wt, extra, meta, name, verdict)
    demo_dir = os.path.join(wt, meta["demo_pkg_dir"])
    demo = os.path.join(demo_dir, "zz_seed_demo_test.go")
    shutil.copy(os.path.join(mdir, "demo_test.go"), demo)
    pkg = "./" + meta["demo_pkg_dir"].strip("/") + "/"
    if meta["demo_pkg_dir"].strip("/").startswith("cmd/hidi"):
        # cmd/hidi only links with a cgo-free stand-in for the alsa driver (never part of a patch)
        shutil.copy(os.path.join(VERIF, "deps", "alsa", "alsa.go"), os.path.join(wt, "internal/pkg/midi/driver/alsa/alsa.go"))
    import re
    names = re.findall(r"^func (Test\w+)\(", open(os.path.join(mdir, "demo_test.go")).read(), re.M)
    runpat = "'^(%s)$'" % "|".join(names)
    rc, out = sh("go test -vet=off -count=1 -run %s %s" % (runpat, pkg), cwd=wt)
    verdict["demo_passes_clean"] = rc == 0
    rc, out = sh(["git", "apply", os.path.join(mdir, "patch.diff")], cwd=wt)
    verdict["patch_applies"] = rc == 0
    rc, out = sh("go test -vet=off -count=1 -run %s %s" % (runpat, pkg), cwd=wt)
    verdict["demo_fails_mutated"] = rc != 0
    os.remove(demo)
    sh("git checkout -- internal/pkg/midi/driver/alsa/alsa.go", cwd=wt)
    bad = suite(wt)
    verdict["suite_unchanged"] = not bad
    sh("git checkout -- . && git clean -fdq", cwd=wt)
    confirmed = all(verdict[k] for k in ("demo_passes_clean", "patch_applies", "demo_fails_mutated", "suite_unchanged"))
    verdict["confirmed"] = confirmed
    if confirmed:
        return run_checks(prop, mdir, wt, extra, meta, name, verdict)
    print(json.dumps(verdict, indent=1))


def run_checks(prop, mdir, wt, extra, meta, name, verdict):
    verdict["confirmed"] = True
    ran = []
    if True:
        # the checks are pointed at the scratch worktree (VERIF_REPO) with the patch applied, so that /repo itself -
        # which background sweeps may be using - is never touched; the worktree must be at /repo's HEAD
        rc, head_repo = sh(["git", "-C", "/repo", "rev-parse", "HEAD"])
        rc, head_wt = sh(["git", "-C", wt, "rev-parse", "HEAD"])
        if head_repo.strip() != head_wt.strip():
            print("WORKTREE NOT AT /repo HEAD")
            sys.exit(2)
        rc, out = sh(["git", "apply", os.path.join(mdir, "patch.diff")], cwd=wt)
        try:
            for p in [prop] + extra:
                rc, out = sh([os.path.join(VERIF, "bin", "check"), p, "quick"], cwd=VERIF, env=dict(os.environ, VERIF_REPO=wt))
                lines = [l for l in out.splitlines() if l.startswith("VIOLATION") or l.startswith("  clause=") or l.startswith("INFRA")]
                ran.append(dict(cmd="bin/check %s quick" % p, rc=rc, lines=lines[:4]))
        finally:
            sh("git checkout -- . && git clean -fdq", cwd=wt)
        verdict["checks"] = ran
        verdict["caught_by"] = [r["cmd"].split()[1] for r in ran if r["rc"] == 1]
        dst = os.path.join(VERIF, "seeded", os.environ.get("SEED_DST") or "%s-%s" % (prop, name))
        if os.path.abspath(dst) != os.path.abspath(mdir):
            shutil.rmtree(dst, ignore_errors=True)
            os.makedirs(dst)
            for f in ("patch.diff", "demo_test.go"):
                shutil.copy(os.path.join(mdir, f), dst)
        meta2 = dict(meta)
        meta2.update(base_commit=head_repo.strip()[:7], breaks=prop, confirmed_by="bin/seedeval.py: demo passes on the clean tree, fails with the patch; baseline suite (307) unchanged with the patch",
                     checks_run=ran, caught_by=verdict["caught_by"])
        json.dump(meta2, open(os.path.join(dst, "meta.json"), "w"), indent=1)
    print(json.dumps(verdict, indent=1))


if __name__ == "__main__":
    main()
