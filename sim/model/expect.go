package model

import (
	"fmt"
	"sort"
	"strings"
)

// Expectation builds, directly from the structured description (never through the parser), the
// semantic projection of the configuration the file states (property C10).
func (d *Desc) Expectation() map[string]string {
	e := map[string]string{}
	e["mode"] = d.Mode
	var ex []string
	for _, k := range d.Exit {
		ex = append(ex, fmt.Sprint(k.Code))
	}
	e["exit"] = strings.Join(ex, ",")
	e["id"] = fmt.Sprintf("%d/%d/%d/%d", d.ID[0], d.ID[1], d.ID[2], d.ID[3])
	e["uniq"] = d.Uniq
	vel := d.Velocity
	if !d.HasVel || vel == 0 {
		vel = 64
	}
	e["defaults"] = fmt.Sprintf("%d,%d,%d,%d,%d", d.Octave, d.Semitone, d.Channel, d.MappingIndex(d.Mapping), vel)
	for _, a := range d.Actions {
		e[fmt.Sprintf("action/%d", a.Code)] = a.Action
	}
	for _, c := range []string{"white", "black", "c", "unavailable", "other", "active", "active_external"} {
		e["color/"+c] = fmt.Sprintf("%06x", d.Colors[c]&0xffffff)
	}
	e["mappings"] = fmt.Sprint(len(d.Mappings))
	for i, m := range d.Mappings {
		p := fmt.Sprintf("m%d/", i)
		e[p+"name"] = m.Name
		for _, sk := range m.Keys {
			for _, k := range sk.Keys {
				e[fmt.Sprintf("%skey/%s/%d", p, sk.Sub, k.Code)] = fmt.Sprintf("%d,%d", k.Note, k.Offset)
			}
		}
		for _, sa := range m.Analog {
			dz := 0.0
			if sa.DefaultDZ != nil {
				dz = *sa.DefaultDZ
			}
			e[p+"ddz/"+sa.Sub] = fmt.Sprintf("%g", dz)
			for _, a := range sa.Axes {
				e[fmt.Sprintf("%saxis/%s/%d", p, sa.Sub, a.Code)] = a.Project()
				if a.Deadzone != nil {
					e[fmt.Sprintf("%sdz/%s/%d", p, sa.Sub, a.Code)] = fmt.Sprintf("%g", *a.Deadzone)
				}
			}
		}
	}
	return e
}

func optInt(p *int) string {
	if p == nil {
		return "-"
	}
	return fmt.Sprint(*p)
}

func optStr(p *string) string {
	if p == nil {
		return "-"
	}
	return *p
}

// Project renders the fields of an axis mapping that are meaningful for its type.
func (a *AxisDesc) Project() string {
	switch a.Type {
	case "cc":
		return fmt.Sprintf("cc cc=%s neg=%s off=%d offneg=%d flip=%v dzc=%v", optInt(a.CC), optInt(a.CCNeg), a.Off, a.OffNeg, a.Flip, a.DZCenter)
	case "pitch_bend":
		return fmt.Sprintf("pitch_bend off=%d flip=%v dzc=%v", a.Off, a.Flip, a.DZCenter)
	case "key":
		return fmt.Sprintf("key note=%s neg=%s off=%d offneg=%d flip=%v dzc=%v", optInt(a.Note), optInt(a.NoteNeg), a.Off, a.OffNeg, a.Flip, a.DZCenter)
	case "action":
		return fmt.Sprintf("action a=%s neg=%s flip=%v dzc=%v", optStr(a.Action), optStr(a.ActionNeg), a.Flip, a.DZCenter)
	}
	return a.Type
}

// DiffProjection returns the first difference between two projections ("" if equal).
func DiffProjection(want, got map[string]string) string {
	var keys []string
	for k := range want {
		keys = append(keys, k)
	}
	for k := range got {
		if _, ok := want[k]; !ok {
			keys = append(keys, k)
		}
	}
	sort.Strings(keys)
	for _, k := range keys {
		w, okw := want[k]
		g, okg := got[k]
		switch {
		case okw && !okg:
			return fmt.Sprintf("%s: the file says %q, the configuration has nothing", k, w)
		case !okw && okg:
			return fmt.Sprintf("%s: the configuration has %q, the file says nothing", k, g)
		case w != g:
			return fmt.Sprintf("%s: the file says %q, the configuration has %q", k, w, g)
		}
	}
	return ""
}
