package model

import (
	"fmt"
	"math/big"
	"sort"
	"strings"
)

// Msg is a decoded 3-byte MIDI channel message.
type Msg struct {
	Kind byte // 'N' note on, 'F' note off, 'C' control change, 'B' pitch bend, '?' anything else
	Ch   int  // 1..16
	A, B int  // note,velocity | controller,value | bend(0..16383),0
	Raw  []byte
}

func (m Msg) String() string {
	switch m.Kind {
	case 'N':
		return fmt.Sprintf("On(ch%d,%d,v%d)", m.Ch, m.A, m.B)
	case 'F':
		return fmt.Sprintf("Off(ch%d,%d)", m.Ch, m.A)
	case 'C':
		return fmt.Sprintf("CC(ch%d,%d=%d)", m.Ch, m.A, m.B)
	case 'B':
		return fmt.Sprintf("Bend(ch%d,%d)", m.Ch, m.A)
	}
	return fmt.Sprintf("Raw(% x)", m.Raw)
}

// Decode turns the bytes of one emitted event into a Msg and reports whether they form a valid
// three-byte Note On / Note Off / Control Change / Pitch Bend message (property C05).
func Decode(b []byte) (Msg, bool) {
	m := Msg{Kind: '?', Raw: append([]byte(nil), b...)}
	if len(b) != 3 {
		return m, false
	}
	st := b[0] & 0xF0
	m.Ch = int(b[0]&0x0F) + 1
	ok := b[1] < 128 && b[2] < 128
	switch st {
	case 0x90:
		m.Kind, m.A, m.B = 'N', int(b[1]), int(b[2])
	case 0x80:
		m.Kind, m.A, m.B = 'F', int(b[1]), int(b[2])
	case 0xB0:
		m.Kind, m.A, m.B = 'C', int(b[1]), int(b[2])
	case 0xE0:
		m.Kind, m.A = 'B', int(b[2]&0x7F)<<7|int(b[1]&0x7F)
	default:
		return m, false
	}
	return m, ok
}

type Pair struct{ Ch, Pitch int }

// Receiver is the standard receiver-side reconstruction: which notes sound, last controller
// values, last bend per channel.
type Receiver struct {
	Sounding map[Pair]bool
	CC       map[[2]int]int
	Bend     map[int]int
}

// PMsg is a predicted message; Block > 0 groups the messages of one panic burst (order free inside).
type PMsg struct {
	Msg
	Block int
}

func NewReceiver() *Receiver {
	return &Receiver{Sounding: map[Pair]bool{}, CC: map[[2]int]int{}, Bend: map[int]int{}}
}

func (r *Receiver) Apply(m Msg) {
	switch m.Kind {
	case 'N':
		if m.B > 0 {
			r.Sounding[Pair{m.Ch, m.A}] = true
		} else {
			delete(r.Sounding, Pair{m.Ch, m.A})
		}
	case 'F':
		delete(r.Sounding, Pair{m.Ch, m.A})
	case 'C':
		if m.A == 123 {
			for p := range r.Sounding {
				if p.Ch == m.Ch {
					delete(r.Sounding, p)
				}
			}
			return
		}
		r.CC[[2]int{m.Ch, m.A}] = m.B
	case 'B':
		r.Bend[m.Ch] = m.A
	}
}

func (r *Receiver) SoundingList() []string {
	var out []string
	for p := range r.Sounding {
		out = append(out, fmt.Sprintf("ch%d:%d", p.Ch, p.Pitch))
	}
	sort.Strings(out)
	return out
}

// Event is one step of a W1/W3 script.
type Event struct {
	Kind    string `json:"k"` // key | abs | midiin | wait | unplug
	Handler int    `json:"h,omitempty"`
	Code    uint16 `json:"c,omitempty"`
	Value   int32  `json:"v"`
	// midiin
	Bytes []byte `json:"b,omitempty"`
	// wait
	Ms int `json:"ms,omitempty"`
}

func (e Event) String() string {
	switch e.Kind {
	case "key":
		return fmt.Sprintf("key(h%d,%#x,%d)", e.Handler, e.Code, e.Value)
	case "abs":
		return fmt.Sprintf("abs(h%d,%#x,%d)", e.Handler, e.Code, e.Value)
	case "midiin":
		return fmt.Sprintf("midiin(% x)", e.Bytes)
	case "wait":
		return fmt.Sprintf("wait(%dms)", e.Ms)
	}
	return e.Kind
}

// Violation names the property clause(s) a step broke.
type Violation struct {
	Props  []string // property ids this observation violates
	Clause string
	Detail string
}

func (v *Violation) Has(p string) bool {
	for _, x := range v.Props {
		if x == p {
			return true
		}
	}
	return false
}

type heldKey struct {
	h    int
	code uint16
}

type axisKey struct {
	sub  string
	code uint16
}

type axisState struct {
	seen    bool
	lastRaw int32
	lastMap int
	lastCh  int
	// lastEpoch: the value of Dev.destEpoch at the last event of this axis
	lastEpoch int
	last    *big.Rat
	dir     int   // key emulation: 0 off, +1, -1
	actDir  int   // action axis: the direction whose action the axis currently holds
	// actSide: the physical side (sign of the raw position relative to rest) on which that action was triggered
	actSide int
	// edge: the previous event of this axis sat exactly on a deadzone boundary and was not judged: whether the
	// implementation took it for "inside" (and remembers the rest value) or for "just outside" is open
	edge bool
	pair    *Pair // what the sounding direction was started with (nil when that direction is silent)
	ccOwner bool
}

// Dev is the reference model of one device, written from the statements of C01-C08, C13, C14.
type Dev struct {
	D    *Desc
	Oct  int
	Semi int
	Ch   int // 1..16
	Map  int

	Down map[uint16]bool
	phys map[heldKey]bool // keys physically down, per sub-handler
	// Focus, when "C01", keeps a run going after a clause of another property failed: the C01 oracle only
	// relates what is physically held to what the receiver hears and does not depend on the model's
	// per-step expectations.
	Focus   string
	Foreign []string
	// predict mode (burst runs): the model does not compare, it records what it expects
	predict     bool
	Predicted   []PMsg
	panicBlocks int
	held        map[heldKey]*Pair // nil pointer = the press was silent
	Holders     map[Pair]int
	everMany    map[Pair]bool
	ActHeld     map[string]bool
	actCnt      map[string]int // keys down per action
	// destEpoch counts the presses of channel and mapping actions (whether they changed anything or not): positions
	// of an axis before and after one of them may have different destinations
	destEpoch int
	Learning    bool
	axes        map[axisKey]*axisState
	Recv        *Receiver
	Signals     int
	PanicSeen   bool
	// statistics for evidence / probes
	Probes  map[string]int
	monoPts map[string][]monoPoint
}

func NewDev(d *Desc) *Dev {
	m := &Dev{D: d, Oct: d.Octave, Semi: d.Semitone, Ch: d.Channel, Map: d.MappingIndex(d.Mapping),
		Down: map[uint16]bool{}, phys: map[heldKey]bool{}, held: map[heldKey]*Pair{}, Holders: map[Pair]int{}, everMany: map[Pair]bool{},
		ActHeld: map[string]bool{}, axes: map[axisKey]*axisState{}, Recv: NewReceiver(), Probes: map[string]int{}}
	return m
}

func (m *Dev) probe(s string) { m.Probes[s]++ }

func (m *Dev) action(code uint16) (string, bool) {
	for _, a := range m.D.Actions {
		if a.Code == code {
			return a.Action, true
		}
	}
	return "", false
}

func (m *Dev) sub(h int) string {
	if h < len(m.D.Handlers) {
		return m.D.Handlers[h]
	}
	return ""
}

func (m *Dev) keyDesc(h int, code uint16) *KeyDesc {
	mp := &m.D.Mappings[m.Map]
	var found *KeyDesc
	for i := range mp.Keys {
		if mp.Keys[i].Sub != m.sub(h) {
			continue
		}
		for j := range mp.Keys[i].Keys {
			if mp.Keys[i].Keys[j].Code == code {
				found = &mp.Keys[i].Keys[j]
			}
		}
	}
	return found
}

func (m *Dev) axisDesc(h int, code uint16) (*AxisDesc, *SubAnalog) {
	mp := &m.D.Mappings[m.Map]
	var fa *AxisDesc
	var fs *SubAnalog
	for i := range mp.Analog {
		if mp.Analog[i].Sub != m.sub(h) {
			continue
		}
		for j := range mp.Analog[i].Axes {
			if mp.Analog[i].Axes[j].Code == code {
				fa, fs = &mp.Analog[i].Axes[j], &mp.Analog[i]
			}
		}
	}
	return fa, fs
}

func pairOf(a string) (string, bool) {
	switch a {
	case "octave_up":
		return "octave_down", true
	case "octave_down":
		return "octave_up", true
	case "semitone_up":
		return "semitone_down", true
	case "semitone_down":
		return "semitone_up", true
	case "channel_up":
		return "channel_down", true
	case "channel_down":
		return "channel_up", true
	case "mapping_up":
		return "mapping_down", true
	case "mapping_down":
		return "mapping_up", true
	}
	return "", false
}

// AnyHeld reports whether any key is physically down or a key-emulating axis is deflected.
func (m *Dev) AnyHeld() bool {
	if len(m.phys) > 0 {
		return true
	}
	for _, a := range m.axes {
		if a.dir != 0 {
			return true
		}
	}
	return false
}

// ExitHeld reports whether all keys of a non-empty exit sequence are down.
func (m *Dev) ExitHeld() bool {
	if len(m.D.Exit) == 0 {
		return false
	}
	for _, k := range m.D.Exit {
		if !m.Down[k.Code] {
			return false
		}
	}
	return true
}

func fmtMsgs(ms []Msg) string {
	var s []string
	for _, x := range ms {
		s = append(s, x.String())
	}
	if len(s) > 12 {
		s = append(s[:12], fmt.Sprintf("...(%d)", len(ms)))
	}
	return "[" + strings.Join(s, " ") + "]"
}

func viol(clause, detail string, props ...string) *Violation {
	return &Violation{Props: props, Clause: clause, Detail: detail}
}

// kinds returns e.g. "FN" for [Off, On].
func kinds(ms []Msg) string {
	b := make([]byte, len(ms))
	for i, x := range ms {
		b[i] = x.Kind
	}
	return string(b)
}

// Step feeds one processed input event and the messages (and signals) the device emitted for it
// to the model. It returns the first violated clause, if any, and always updates the receiver.
func (m *Dev) Step(ev Event, got []Msg, signals int) *Violation {
	for _, g := range got {
		m.Recv.Apply(g)
	}
	var v *Violation
	switch ev.Kind {
	case "key":
		if ev.Value == 2 {
			// kernel auto-repeat of a held key: nothing happens
			m.probe("key_repeat")
			if len(got) > 0 || signals > 0 {
				v = viol("repeat_event_acts", fmt.Sprintf("auto-repeat event %s produced %s signals=%d", ev, fmtMsgs(got), signals), "C02", "C14")
			}
			break
		}
		if ev.Value == 1 {
			m.phys[heldKey{ev.Handler, ev.Code}] = true
		} else {
			delete(m.phys, heldKey{ev.Handler, ev.Code})
		}
		v = m.key(ev, got, signals)
	case "abs":
		v = m.abs(ev, got, signals)
	case "midiin", "wait":
		if len(got) > 0 || signals > 0 {
			v = viol("spontaneous", fmt.Sprintf("%s produced %s signals=%d", ev, fmtMsgs(got), signals), "C02")
		}
	}
	if v != nil {
		if m.Focus == "C01" && !v.Has("C01") {
			m.Foreign = append(m.Foreign, v.Clause)
		} else {
			return v
		}
	}
	// C01: nothing held => nothing sounding
	if !m.AnyHeld() && len(m.Recv.Sounding) > 0 {
		return viol("stuck_note_at_quiescence", fmt.Sprintf("nothing held after %s but receiver still sounds %v", ev, m.Recv.SoundingList()), "C01")
	}
	return nil
}

func (m *Dev) key(ev Event, got []Msg, signals int) *Violation {
	code := ev.Code
	press := ev.Value == 1
	if press {
		m.Down[code] = true
		if m.ExitHeld() {
			// C14: the completing press raises the signal once and is swallowed
			m.probe("exit_fired")
			m.Signals++
			if signals != 1 {
				return viol("exit_signal_count", fmt.Sprintf("press %#x completes the exit sequence: %d signals", code, signals), "C14")
			}
			if len(got) != 0 {
				return viol("exit_press_not_swallowed", fmt.Sprintf("completing press emitted %s", fmtMsgs(got)), "C14")
			}
			return nil
		}
	} else {
		delete(m.Down, code)
	}
	if signals != 0 {
		return viol("exit_signal_spurious", fmt.Sprintf("%s raised %d signals although the exit sequence %v is not fully held", ev, signals, m.D.Exit), "C14")
	}
	if a, ok := m.action(code); ok {
		return m.actionKey(a, press, got)
	}
	kd := m.keyDesc(ev.Handler, code)
	hk := heldKey{ev.Handler, code}
	if press {
		if kd == nil {
			if len(got) != 0 {
				return viol("unmapped_press_emits", fmt.Sprintf("press of unmapped key %#x emitted %s", code, fmtMsgs(got)), "C04")
			}
			return nil
		}
		return m.notePress(hk, kd, got)
	}
	return m.noteRelease(hk, got)
}

func (m *Dev) notePress(hk heldKey, kd *KeyDesc, got []Msg) *Violation {
	p := kd.Note + 12*m.Oct + m.Semi
	if p < 0 || p > 127 {
		m.probe("press_out_of_range")
		m.held[hk] = nil
		if len(got) != 0 {
			return viol("out_of_range_press_emits", fmt.Sprintf("key %#x: %d+12*%d+%d=%d is outside 0..127 but emitted %s", hk.code, kd.Note, m.Oct, m.Semi, p, fmtMsgs(got)), "C04")
		}
		return nil
	}
	c := (m.Ch-1+kd.Offset)%16 + 1
	pr := Pair{c, p}
	vel := m.D.Velocity
	if vel == 0 {
		vel = 64
	}
	n := m.Holders[pr]
	var want string
	switch m.D.Mode {
	case "off", "retrigger":
		want = "N"
	case "no_repeat":
		if n == 0 {
			want = "N"
		}
	case "interrupt":
		if n > 0 {
			want = "FN"
		} else {
			want = "N"
		}
	}
	if n > 0 {
		m.probe("collision_press_" + m.D.Mode)
		m.everMany[pr] = true
	}
	m.held[hk] = &pr
	m.Holders[pr]++
	if m.predict {
		for _, k := range want {
			x := Msg{Kind: byte(k), Ch: c, A: p}
			if k == 'N' {
				x.B = vel
			}
			m.Predicted = append(m.Predicted, PMsg{Msg: x})
		}
		return nil
	}
	if kinds(got) != want {
		props := []string{"C03"}
		if n == 0 {
			props = []string{"C04"}
			if m.D.Mode != "off" && len(got) != 1 {
				props = append(props, "C03") // acts as if somebody held the pitch: collision bookkeeping
			}
			if m.PanicSeen {
				props = append(props, "C13")
			}
		}
		return viol("press_shape", fmt.Sprintf("mode %s, %d holders of ch%d:%d before the press of %#x: want kinds %q, got %s", m.D.Mode, n, c, p, hk.code, want, fmtMsgs(got)), props...)
	}
	for _, g := range got {
		if g.Ch != c || g.A != p {
			props := []string{"C04"}
			if m.PanicSeen {
				props = append(props, "C13")
			}
			return viol("press_note_channel", fmt.Sprintf("key %#x (base %d, offset %d) with octave %d semitone %d channel %d must sound ch%d:%d, got %s", hk.code, kd.Note, kd.Offset, m.Oct, m.Semi, m.Ch, c, p, fmtMsgs(got)), props...)
		}
		if g.Kind == 'N' && g.B != vel {
			return viol("press_velocity", fmt.Sprintf("configured velocity %d, got %s", vel, g), "C04")
		}
	}
	return nil
}

func (m *Dev) noteRelease(hk heldKey, got []Msg) *Violation {
	pp, ok := m.held[hk]
	if !ok {
		if len(got) != 0 {
			return viol("release_of_unheld_emits", fmt.Sprintf("release of %#x which holds nothing emitted %s", hk.code, fmtMsgs(got)), "C02")
		}
		return nil
	}
	delete(m.held, hk)
	if pp == nil {
		if len(got) != 0 {
			return viol("release_of_silent_press_emits", fmt.Sprintf("release of %#x whose press was silent emitted %s", hk.code, fmtMsgs(got)), "C02")
		}
		return nil
	}
	pr := *pp
	n := m.Holders[pr]
	m.Holders[pr]--
	if m.Holders[pr] <= 0 {
		delete(m.Holders, pr)
	}
	want := "F"
	if m.D.Mode != "off" && n != 1 {
		want = ""
	}
	if m.predict {
		if want == "F" {
			m.Predicted = append(m.Predicted, PMsg{Msg: Msg{Kind: 'F', Ch: pr.Ch, A: pr.Pitch}})
		}
		return nil
	}
	if want == "F" && len(got) == 0 && !m.Recv.Sounding[pr] {
		// the pair was already silenced (panic / All Notes Off): the release's Note Off would only be
		// redundant ("at most a redundant Note Off"), leaving it out is harmless
		m.probe("release_after_silencing_without_off")
		return nil
	}
	if kinds(got) != want {
		props := []string{"C02"}
		if m.everMany[pr] {
			props = []string{"C03"}
		} else if m.D.Mode != "off" {
			props = append(props, "C03") // the shape of a release in a managed mode is collision bookkeeping
		}
		if want == "F" && len(got) == 0 {
			props = append(props, "C01")
		}
		if m.PanicSeen {
			props = append(props, "C13")
		}
		return viol("release_shape", fmt.Sprintf("mode %s, %d holders of ch%d:%d at the release of %#x: want kinds %q, got %s", m.D.Mode, n, pr.Ch, pr.Pitch, hk.code, want, fmtMsgs(got)), props...)
	}
	for _, g := range got {
		if g.Ch != pr.Ch || g.A != pr.Pitch {
			return viol("release_not_pinned", fmt.Sprintf("key %#x was pressed as ch%d:%d, its release emitted %s", hk.code, pr.Ch, pr.Pitch, fmtMsgs(got)), "C02")
		}
	}
	return nil
}

func (m *Dev) actionKey(a string, press bool, got []Msg) *Violation {
	if m.actCnt == nil {
		m.actCnt = map[string]int{}
	}
	if !press {
		// an action may have two keys: it is held as long as one of them is down
		if m.actCnt[a] > 0 {
			m.actCnt[a]--
		}
		if m.actCnt[a] == 0 {
			if a == "cc_learning" {
				m.Learning = false
			}
			delete(m.ActHeld, a)
		}
		if len(got) != 0 {
			return viol("action_release_emits", fmt.Sprintf("release of action %s emitted %s", a, fmtMsgs(got)), "C02")
		}
		return nil
	}
	partner, hasPartner := pairOf(a)
	m.ActHeld[a] = true
	m.actCnt[a]++
	if strings.HasPrefix(a, "channel_") || strings.HasPrefix(a, "mapping_") {
		m.destEpoch++
	}
	if hasPartner && m.ActHeld[partner] {
		m.probe("pair_reset")
		switch a {
		case "octave_up", "octave_down":
			m.Oct = 0
		case "semitone_up", "semitone_down":
			m.Semi = 0
		case "channel_up", "channel_down":
			m.Ch = 1
		case "mapping_up", "mapping_down":
			m.Map = 0
		}
		if len(got) != 0 {
			return viol("action_emits", fmt.Sprintf("pair reset via %s emitted %s", a, fmtMsgs(got)), "C02")
		}
		return nil
	}
	switch a {
	case "panic":
		return m.panicStep(got)
	case "octave_up":
		m.Oct++
	case "octave_down":
		m.Oct--
	case "semitone_up":
		m.Semi++
	case "semitone_down":
		m.Semi--
	case "channel_up":
		if m.Ch < 16 {
			m.Ch++
		} else {
			m.probe("channel_saturated")
		}
	case "channel_down":
		if m.Ch > 1 {
			m.Ch--
		} else {
			m.probe("channel_saturated")
		}
	case "mapping_up":
		if m.Map < len(m.D.Mappings)-1 {
			m.Map++
		} else {
			m.probe("mapping_saturated")
		}
	case "mapping_down":
		if m.Map > 0 {
			m.Map--
		} else {
			m.probe("mapping_saturated")
		}
	case "cc_learning":
		m.Learning = true
	}
	if len(got) != 0 {
		return viol("action_emits", fmt.Sprintf("action %s emitted %s", a, fmtMsgs(got)), "C02")
	}
	return nil
}

func (m *Dev) panicStep(got []Msg) *Violation {
	m.PanicSeen = true
	m.probe("panic")
	if m.predict {
		m.panicBlocks++
		m.Predicted = append(m.Predicted, PMsg{Msg: Msg{Kind: 'C', Ch: m.Ch, A: 123}, Block: m.panicBlocks})
		for n := 0; n < 128; n++ {
			m.Predicted = append(m.Predicted, PMsg{Msg: Msg{Kind: 'F', Ch: m.Ch, A: n}, Block: m.panicBlocks})
		}
		return nil
	}
	seenCC := 0
	offs := map[int]int{}
	for _, g := range got {
		switch {
		case g.Kind == 'C' && g.A == 123 && g.Ch == m.Ch:
			seenCC++
		case g.Kind == 'F' && g.Ch == m.Ch:
			offs[g.A]++
		default:
			return viol("panic_foreign_message", fmt.Sprintf("panic on channel %d emitted %s", m.Ch, g), "C13")
		}
	}
	if seenCC != 1 {
		return viol("panic_all_notes_off", fmt.Sprintf("panic on channel %d: %d All Notes Off messages", m.Ch, seenCC), "C13")
	}
	for n := 0; n < 128; n++ {
		if offs[n] != 1 {
			return viol("panic_note_offs", fmt.Sprintf("panic on channel %d: %d Note Off for note %d (want one for each of 0..127)", m.Ch, offs[n], n), "C13")
		}
	}
	return nil
}

// State is what Device.State() must report.
func (m *Dev) StateString() string {
	return fmt.Sprintf("oct=%d semi=%d ch=%d map=%s", m.Oct, m.Semi, m.Ch, m.D.Mappings[m.Map].Name)
}

// Unplug checks the messages emitted between the end of the event stream and the return of
// ProcessEvents: afterwards nothing may sound, and nothing may have been started.
func (m *Dev) Unplug(got []Msg) *Violation {
	for _, g := range got {
		m.Recv.Apply(g)
		if g.Kind == 'N' && g.B > 0 {
			return viol("unplug_starts_note", fmt.Sprintf("disconnect clean-up emitted %s", g), "C01")
		}
	}
	if m.D.Mode != "off" {
		for pr, n := range m.Holders {
			if n <= 0 {
				continue
			}
			cnt := 0
			for _, g := range got {
				if g.Kind == 'F' && g.Ch == pr.Ch && g.A == pr.Pitch {
					cnt++
				}
			}
			// key-emulating axes share no bookkeeping with keys; only pitches held by keys alone are judged
			axisToo := false
			for _, a := range m.axes {
				if a.pair != nil && *a.pair == pr {
					axisToo = true
				}
			}
			if cnt > 1 && !axisToo {
				return viol("unplug_off_count", fmt.Sprintf("mode %s: ch%d:%d was held by %d keys at disconnect, the clean-up sent %d Note Offs for it (exactly one is sent for a shared pitch)", m.D.Mode, pr.Ch, pr.Pitch, n, cnt), "C03")
			}
		}
	}
	if len(m.Recv.Sounding) > 0 {
		return viol("stuck_note_after_disconnect", fmt.Sprintf("after disconnect the receiver still sounds %v (clean-up emitted %s)", m.Recv.SoundingList(), fmtMsgs(got)), "C01")
	}
	return nil
}

// Predict feeds a key event to the model in predict mode: the state advances exactly as in Step, the
// expected messages are appended to Predicted instead of being compared. Only key events are supported.
func (m *Dev) Predict(ev Event) {
	m.predict = true
	if ev.Kind == "key" && ev.Value != 2 {
		if ev.Value == 1 {
			m.phys[heldKey{ev.Handler, ev.Code}] = true
		} else {
			delete(m.phys, heldKey{ev.Handler, ev.Code})
		}
		m.key(ev, nil, m.predictSignals(ev))
	}
	m.predict = false
}

// predictSignals answers what key() wants to hear about signals so that the exit clause stays quiet.
func (m *Dev) predictSignals(ev Event) int {
	if ev.Value != 1 || len(m.D.Exit) == 0 {
		return 0
	}
	for _, k := range m.D.Exit {
		if k.Code != ev.Code && !m.Down[k.Code] {
			return 0
		}
	}
	for _, k := range m.D.Exit {
		if k.Code == ev.Code {
			return 1
		}
	}
	if m.ExitHeld() {
		return 1
	}
	return 0
}

// CompareStream checks an actual message stream against the predicted one: equal in order, except that
// the messages of one panic burst may come in any order among themselves.
func CompareStream(pred []PMsg, got []Msg) (int, string) {
	i := 0
	for i < len(pred) {
		if pred[i].Block == 0 {
			if i >= len(got) {
				return i, fmt.Sprintf("stream ends after %d messages, expected %s next", len(got), pred[i].Msg)
			}
			if !sameMsg(pred[i].Msg, got[i]) {
				return i, fmt.Sprintf("message %d: expected %s, got %s", i, pred[i].Msg, got[i])
			}
			i++
			continue
		}
		j := i
		for j < len(pred) && pred[j].Block == pred[i].Block {
			j++
		}
		if j > len(got) {
			return i, fmt.Sprintf("stream ends after %d messages inside a panic burst (expected %d)", len(got), j)
		}
		want := map[[4]int]int{}
		for _, pm := range pred[i:j] {
			want[[4]int{int(pm.Kind), pm.Ch, pm.A, pm.B}]++
		}
		for k := i; k < j; k++ {
			key := [4]int{int(got[k].Kind), got[k].Ch, got[k].A, got[k].B}
			if got[k].Kind == 'F' {
				key[3] = 0
			}
			if want[key] == 0 {
				return k, fmt.Sprintf("message %d: %s does not belong to the panic burst expected at messages %d..%d", k, got[k], i, j-1)
			}
			want[key]--
		}
		i = j
	}
	if len(got) > len(pred) {
		return len(pred), fmt.Sprintf("%d unexpected trailing messages, first %s", len(got)-len(pred), got[len(pred)])
	}
	return -1, ""
}

func sameMsg(a, b Msg) bool {
	if a.Kind != b.Kind || a.Ch != b.Ch || a.A != b.A {
		return false
	}
	if a.Kind == 'N' || a.Kind == 'C' {
		return a.B == b.B
	}
	return true
}
