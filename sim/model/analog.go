package model

import (
	"fmt"
	"math"
	"math/big"
	"strings"
)

var (
	rZero = big.NewRat(0, 1)
	rOne  = big.NewRat(1, 1)
	rHalf = big.NewRat(1, 2)
	r49   = big.NewRat(49, 100)
)

func rat(n int64) *big.Rat { return big.NewRat(n, 1) }

func abs(r *big.Rat) *big.Rat { return new(big.Rat).Abs(r) }

// Shape computes the deadzone-shaped position of an axis exactly (before flip):
// normalise by |min| or max, optional centre shift, deadzone cut-out and rescale.
// ok is false when the configuration is outside what the statements describe
// (deadzone not in [0,1), degenerate range).
func Shape(a *AxisDesc, sa *SubAnalog, raw int32) (s *big.Rat, canNeg bool, endStop bool, ok bool) {
	if a.Max <= 0 || a.Min > 0 {
		return nil, false, false, false
	}
	var norm *big.Rat
	if raw < 0 {
		if a.Min == 0 {
			return nil, false, false, false
		}
		norm = big.NewRat(int64(raw), -int64(a.Min))
	} else {
		norm = big.NewRat(int64(raw), int64(a.Max))
	}
	canNeg = a.Min < 0
	if a.DZCenter {
		norm = new(big.Rat).Sub(new(big.Rat).Mul(rat(2), norm), rOne)
		canNeg = true
	}
	dzf := 0.0
	if a.Deadzone != nil {
		dzf = *a.Deadzone
	} else if sa.DefaultDZ != nil {
		dzf = *sa.DefaultDZ
	}
	if dzf == 1 {
		// the whole travel is deadzone (the top of the documented 0.0-1.0 range): every position is the rest position
		return new(big.Rat), canNeg, false, true
	}
	if math.IsNaN(dzf) || math.IsInf(dzf, 0) || dzf < 0 || dzf > 1 {
		return nil, canNeg, false, false
	}
	dz := new(big.Rat).SetFloat64(dzf)
	an := abs(norm)
	endStop = an.Cmp(rOne) == 0
	if an.Cmp(dz) < 0 {
		return new(big.Rat), canNeg, endStop, true
	}
	s = new(big.Rat).Sub(an, dz)
	s.Quo(s, new(big.Rat).Sub(rOne, dz))
	if norm.Sign() < 0 {
		s.Neg(s)
	}
	return s, canNeg, endStop, true
}

// NearDeadzoneEdge reports whether a raw position lies within 1e-9 of the deadzone boundary, where the
// exact rational computation and the float computation may legitimately fall on different sides.
func NearDeadzoneEdge(a *AxisDesc, sa *SubAnalog, raw int32) bool {
	if a.Max <= 0 || a.Min > 0 || (raw < 0 && a.Min == 0) {
		return false
	}
	var norm *big.Rat
	if raw < 0 {
		norm = big.NewRat(int64(raw), -int64(a.Min))
	} else {
		norm = big.NewRat(int64(raw), int64(a.Max))
	}
	if a.DZCenter {
		norm = new(big.Rat).Sub(new(big.Rat).Mul(rat(2), norm), rOne)
	}
	dzf := 0.0
	if a.Deadzone != nil {
		dzf = *a.Deadzone
	} else if sa.DefaultDZ != nil {
		dzf = *sa.DefaultDZ
	}
	if math.IsNaN(dzf) || math.IsInf(dzf, 0) || dzf <= 0 || dzf >= 1 {
		return false
	}
	d := new(big.Rat).Sub(abs(norm), new(big.Rat).SetFloat64(dzf))
	return abs(d).Cmp(big.NewRat(1, 1000000000)) < 0
}

// Flipped applies flip_axis.
func Flipped(a *AxisDesc, s *big.Rat, canNeg bool) *big.Rat {
	if !a.Flip {
		return s
	}
	if canNeg {
		return new(big.Rat).Neg(s)
	}
	return new(big.Rat).Sub(rOne, s)
}

// NearThreshold reports whether a shaped (flipped) value is too close to one of the decision
// thresholds (±0.5, ±0.49) for floating point and exact arithmetic to be guaranteed to agree.
func NearThreshold(s *big.Rat, canNeg bool) bool {
	v := new(big.Rat).Set(s)
	if !canNeg {
		v.Sub(new(big.Rat).Mul(rat(2), v), rOne)
	}
	eps := big.NewRat(1, 1000000)
	for _, base := range []*big.Rat{s, v} {
		for _, t := range []*big.Rat{rHalf, r49} {
			d := new(big.Rat).Sub(abs(base), t)
			if abs(d).Cmp(eps) < 0 {
				return true
			}
		}
	}
	return false
}

// Neutral reports whether a flipped shaped value sounds no direction of a key-emulating axis
// (below 49 % of travel on either side).
func Neutral(f *big.Rat, canNeg bool) bool {
	v := f
	if !canNeg {
		v = new(big.Rat).Sub(new(big.Rat).Mul(rat(2), f), rOne)
	}
	return abs(v).Cmp(big.NewRat(48, 100)) < 0
}

func floorCeil(r *big.Rat) (int, int) {
	f := new(big.Int).Div(r.Num(), r.Denom()) // Div is Euclidean: floor for positive denominators
	fl := int(f.Int64())
	if r.IsInt() {
		return fl, fl
	}
	return fl, fl + 1
}

// within allows a slack of 1e-9 on top of the stated tolerance: the exact value is computed from the
// binary representation of the configured deadzone, and "one step" is not meant to 1e-15.
func within(v int, exact *big.Rat, tol int64) bool {
	d := new(big.Rat).Sub(rat(int64(v)), exact)
	lim := new(big.Rat).Add(rat(tol), big.NewRat(1, 1000000000))
	return abs(d).Cmp(lim) <= 0
}

type monoPoint struct {
	raw int32
	val int
}

func (m *Dev) mono(key string, raw int32, val int, flip bool) *Violation {
	st := m.monoPts
	if st == nil {
		st = map[string][]monoPoint{}
		m.monoPts = st
	}
	for _, p := range st[key] {
		lo, hi := p, monoPoint{raw, val}
		if lo.raw > hi.raw {
			lo, hi = hi, lo
		}
		if lo.raw == hi.raw {
			continue
		}
		bad := lo.val > hi.val
		if flip {
			bad = lo.val < hi.val
		}
		if bad {
			return viol("not_monotonic", fmt.Sprintf("axis %s: raw %d -> %d but raw %d -> %d (flip=%v)", key, lo.raw, lo.val, hi.raw, hi.val, flip), "C06")
		}
	}
	if len(st[key]) < 600 {
		st[key] = append(st[key], monoPoint{raw, val})
	}
	return nil
}

func (m *Dev) abs(ev Event, got []Msg, signals int) *Violation {
	if signals != 0 {
		return viol("exit_signal_spurious", fmt.Sprintf("%s raised a signal", ev), "C14")
	}
	ak := axisKey{m.sub(ev.Handler), ev.Code}
	st := m.axes[ak]
	if st == nil {
		st = &axisState{last: new(big.Rat)}
		m.axes[ak] = st
	}
	a, sa := m.axisDesc(ev.Handler, ev.Code)
	if (a == nil || a.Type != "key") && st.dir != 0 {
		// A key-emulating direction is still held from a mapping in which this axis was a key. The current
		// mapping does not emulate keys with it: the note may be released at any event of the axis (an early
		// Note Off of the pinned pair is accepted) and has to be gone once the stick is back at rest, which
		// the quiescence clause of C01 then checks.
		if st.pair != nil {
			for i, g := range got {
				if g.Kind == 'F' && g.Ch == st.pair.Ch && g.A == st.pair.Pitch {
					got = append(append([]Msg(nil), got[:i]...), got[i+1:]...)
					m.probe("keyaxis_released_in_other_mapping")
					st.pair = nil // released early; the direction stays physically deflected
					break
				}
			}
		}
		rest := int32(0)
		if pa := m.physAxis(ev.Code); pa != nil && pa.Min == 0 {
			rest = (pa.Max + 1) / 2
		}
		if ev.Value == rest {
			st.dir, st.pair = 0, nil
		}
	}
	if (a == nil || a.Type != "action") && st.actDir != 0 {
		// An action is still held by this axis from a mapping in which it triggered actions; in the current mapping
		// it has another role. Once the stick is back at rest nothing is held any more, and the next deflection in
		// a mapping where it triggers actions is a new press.
		rest := int32(0)
		if pa := m.physAxis(ev.Code); pa != nil && pa.Min == 0 {
			rest = (pa.Max + 1) / 2
		}
		side := 0
		if ev.Value > rest {
			side = 1
		} else if ev.Value < rest {
			side = -1
		}
		if side != st.actSide {
			// ... and so is a deflection that comes back after the axis has been at rest or on the other side
			// meanwhile (a hat can jump from one direction to the other)
			m.probe("action_axis_released_in_other_mapping")
			st.actDir = 0
		}
	}
	if a == nil || a.NoInfo {
		// whatever this axis transmitted before went to another destination
		st.lastMap, st.lastCh, st.lastEpoch = m.Map, m.Ch, m.destEpoch
	}
	if a == nil {
		if len(got) != 0 {
			return viol("unmapped_axis_emits", fmt.Sprintf("%s is not mapped in %q but emitted %s", ev, m.D.Mappings[m.Map].Name, fmtMsgs(got)), "C06")
		}
		return nil
	}
	if a.NoInfo {
		// a position cannot be placed in a range nobody knows: nothing can be derived from it, nothing is sent
		m.probe("axis_without_range")
		if len(got) != 0 {
			return viol("axis_without_range_emits", fmt.Sprintf("%s: the range of this axis is unknown (0..0) but the event emitted %s", ev, fmtMsgs(got)), "C01", "C08", "C06", "C05")
		}
		return nil
	}
	s, canNeg, endStop, ok := Shape(a, sa, ev.Value)
	if !ok {
		m.probe("unmodelled_axis_config")
		return nil // outside the modelled configurations; only the C05 byte monitor applies
	}
	if NearDeadzoneEdge(a, sa, ev.Value) {
		// exactly on the deadzone boundary: either side is acceptable, nothing is asserted (the
		// generators do not produce such positions)
		m.probe("deadzone_edge_unasserted")
		st.last = s
		st.seen, st.lastRaw, st.lastMap, st.lastCh, st.lastEpoch = true, ev.Value, m.Map, m.Ch, m.destEpoch
		st.edge = true
		return nil
	}
	if st.edge {
		st.edge = false
		if len(got) == 0 && (s.Sign() == 0 || s.Cmp(st.last) == 0) {
			// a repetition of what the implementation may have made of the boundary position
			m.probe("after_deadzone_edge_unasserted")
			st.last = s
			st.seen, st.lastRaw, st.lastMap, st.lastCh, st.lastEpoch = true, ev.Value, m.Map, m.Ch, m.destEpoch
			return nil
		}
		st.seen = false // otherwise judged as a fresh position: nothing is known about what was sent before
	}
	if m.Learning && (a.Type == "cc" || a.Type == "pitch_bend") {
		if f := Flipped(a, s, canNeg); !(f.Cmp(new(big.Rat).Neg(rHalf)) < 0 || f.Cmp(rHalf) > 0) {
			// swallowed by the learning gate: nothing is transmitted, so nothing counts as "sent before" either - the
			// same position arriving again after learning is not a repetition
			m.probe("learning_gate_dropped")
			if len(got) != 0 {
				return viol("learning_gate", fmt.Sprintf("cc_learning held, %s is within half travel but emitted %s", ev, fmtMsgs(got)), "C07")
			}
			return nil
		}
	}
	// Repetitions. Not re-sending a position whose values the receiver already has is fine (the implementation keeps
	// the last shaped value per axis for that). Where the values go depends on the mapping and the channel, though:
	// a position that repeats the previous one after a channel or mapping action is judged like any other - by
	// what the receiver then holds at the destination that is current now.
	prevEpoch := st.lastEpoch
	// nothing between the previous event of this axis and this one can have changed where its values go (coming
	// back to the same mapping and channel after an excursion is not that: the axis may have moved meanwhile)
	sameDest := st.seen && prevEpoch == m.destEpoch
	sameInput := st.seen && st.lastRaw == ev.Value && prevEpoch == m.destEpoch
	first := !st.seen // nothing of this axis has been transmitted yet: its first position is not a repetition of anything
	st.seen, st.lastRaw, st.lastMap, st.lastCh, st.lastEpoch = true, ev.Value, m.Map, m.Ch, m.destEpoch
	repeatOther := false
	if !first && s.Cmp(st.last) == 0 {
		m.probe("axis_duplicate")
		switch {
		case len(got) == 0 && sameDest:
			return nil
		case len(got) == 0:
			m.probe("axis_duplicate_other_destination")
			repeatOther = true
		case prevEpoch == m.destEpoch && (sameInput || s.Sign() == 0):
			// the same position again, nothing in between that could have changed where it goes (or rest again):
			// nothing may be re-sent
			return viol("duplicate_not_suppressed", fmt.Sprintf("%s repeats the previous shaped value but emitted %s", ev, fmtMsgs(got)), "C06")
		default:
			// a different position (or mapping) that happens to shape to exactly the same rational: the float
			// computation may tell them apart; a re-sent value is judged like any other
			m.probe("axis_exact_coincidence")
		}
	}
	if !first && sameDest && len(got) == 0 && abs(new(big.Rat).Sub(s, st.last)).Cmp(big.NewRat(1, 1000000000)) < 0 {
		// mathematically different from the previous shaped value by less than 1e-9 (two mappings with
		// different deadzones can map neighbouring positions onto the same float): not re-sending the same
		// transmitted value is fine
		m.probe("axis_near_duplicate")
		st.last = s
		return nil
	}
	inDZ := s.Sign() == 0
	st.last = s
	f := Flipped(a, s, canNeg)
	if m.Learning {
		if !(f.Cmp(new(big.Rat).Neg(rHalf)) < 0 || f.Cmp(rHalf) > 0) {
			m.probe("learning_gate_dropped")
			if a.Type == "key" {
				// the learning gate is stated for controllers; for key emulation the note lifecycle rules
				// of C08/C01 keep applying
				return m.keyAxis(ev, a, st, f, canNeg, got, true)
			}
			if a.Type == "action" {
				// ... and an action triggered by an axis is not a controller either: its release must be seen
				return m.actionAxis(ev, a, st, f, canNeg, got)
			}
			if len(got) != 0 {
				return viol("learning_gate", fmt.Sprintf("cc_learning held, %s is within half travel but emitted %s", ev, fmtMsgs(got)), "C07")
			}
			return nil
		}
		m.probe("learning_gate_passed")
	}
	exactReq := inDZ || endStop
	if inDZ {
		m.probe("axis_in_deadzone")
	}
	if endStop {
		m.probe("axis_end_stop")
	}
	switch a.Type {
	case "cc":
		return m.ccAxis(ev, a, f, canNeg, exactReq, got)
	case "pitch_bend":
		ch := (m.Ch-1+a.Off)%16 + 1
		v := f
		if !canNeg {
			v = new(big.Rat).Sub(new(big.Rat).Mul(rat(2), f), rOne)
		}
		exact := new(big.Rat).Mul(rat(16383), new(big.Rat).Quo(new(big.Rat).Add(v, rOne), rat(2)))
		var val int
		if repeatOther && len(got) == 0 {
			// the position repeats the one transmitted to another destination: nothing needs to be sent if this
			// channel's pitch bend already is where it belongs (a receiver starts at the centre)
			var have bool
			if val, have = m.Recv.Bend[ch]; !have {
				val = 8192
			}
		} else {
			if len(got) != 1 || got[0].Kind != 'B' || got[0].Ch != ch {
				return viol("bend_shape", fmt.Sprintf("%s must transmit one pitch bend on channel %d, got %s", ev, ch, fmtMsgs(got)), "C06")
			}
			val = got[0].A
		}
		if exactReq {
			lo, hi := floorCeil(exact)
			if v.Sign() == 0 {
				lo, hi = 8192, 8192 // the centre of the 14-bit range
			}
			if val != lo && val != hi {
				what := "end stop"
				if inDZ {
					what = "rest position"
				}
				return viol("bend_exact", fmt.Sprintf("%s is a %s: must transmit exactly %d, got %d", ev, what, hi, val), "C06")
			}
		} else if !within(val, exact, 1) {
			return viol("bend_value", fmt.Sprintf("%s: exact %s, transmitted %d", ev, exact.FloatString(3), val), "C06")
		}
		return m.mono(fmt.Sprintf("%s/%#x/m%d/bend", ak.sub, ak.code, m.Map), ev.Value, val, a.Flip)
	case "key":
		return m.keyAxis(ev, a, st, f, canNeg, got, false)
	case "action":
		return m.actionAxis(ev, a, st, f, canNeg, got)
	}
	m.probe("unmodelled_axis_type_" + a.Type)
	return nil
}

func (m *Dev) ccAxis(ev Event, a *AxisDesc, f *big.Rat, canNeg bool, exactReq bool, got []Msg) *Violation {
	chP := (m.Ch-1+a.Off)%16 + 1
	chN := (m.Ch-1+a.OffNeg)%16 + 1
	bidir := a.CCNeg != nil
	pos := [2]int{chP, *a.CC}
	var neg [2]int
	if bidir {
		neg = [2]int{chN, *a.CCNeg}
	}
	for _, g := range got {
		k := [2]int{g.Ch, g.A}
		if g.Kind != 'C' || !(k == pos || (bidir && k == neg)) {
			props := []string{"C06"}
			if bidir {
				props = append(props, "C07")
			}
			return viol("cc_foreign_message", fmt.Sprintf("%s (cc %v / %v) emitted %s", ev, pos, neg, fmtMsgs(got)), props...)
		}
	}
	var exact *big.Rat
	side := pos
	other := neg
	signed := 1
	switch {
	case canNeg && bidir:
		exact = new(big.Rat).Mul(rat(127), abs(f))
		if f.Sign() < 0 {
			side, other, signed = neg, pos, -1
		}
	case canNeg && !bidir:
		exact = new(big.Rat).Mul(rat(127), new(big.Rat).Quo(new(big.Rat).Add(f, rOne), rat(2)))
	case !canNeg && bidir:
		d := new(big.Rat).Sub(new(big.Rat).Mul(rat(2), f), rOne)
		exact = new(big.Rat).Mul(rat(127), abs(d))
		if f.Cmp(rHalf) < 0 {
			side, other, signed = neg, pos, -1
		}
	default:
		exact = new(big.Rat).Mul(rat(127), f)
	}
	val, have := m.Recv.CC[side]
	if !have {
		val = 0
	}
	if exactReq {
		lo, hi := floorCeil(exact)
		if val != lo && val != hi {
			return viol("cc_exact", fmt.Sprintf("%s is an end stop or rest position: controller %v must read %d, reads %d (emitted %s)", ev, side, hi, val, fmtMsgs(got)), "C06")
		}
	} else if !within(val, exact, 1) {
		return viol("cc_value", fmt.Sprintf("%s: exact value %s for controller %v, receiver reads %d (emitted %s)", ev, exact.FloatString(3), side, val, fmtMsgs(got)), "C06")
	}
	if bidir {
		m.probe("bidir_event")
		if o := m.Recv.CC[other]; o != 0 {
			return viol("bidir_other_side_not_zeroed", fmt.Sprintf("%s: stick is on the side of controller %v but controller %v still reads %d (emitted %s)", ev, side, other, o, fmtMsgs(got)), "C07")
		}
	}
	return m.mono(fmt.Sprintf("%s/%#x/m%d/cc", m.sub(ev.Handler), ev.Code, m.Map), ev.Value, signed*val, a.Flip)
}

func (m *Dev) keyAxis(ev Event, a *AxisDesc, st *axisState, f *big.Rat, canNeg bool, got []Msg, gated bool) *Violation {
	v := f
	if !canNeg {
		v = new(big.Rat).Sub(new(big.Rat).Mul(rat(2), f), rOne)
	}
	newDir := st.dir
	switch {
	case v.Cmp(rHalf) >= 0:
		newDir = 1
	case v.Cmp(new(big.Rat).Neg(rHalf)) <= 0:
		newDir = -1
	case abs(v).Cmp(r49) < 0:
		newDir = 0
	case st.dir != 0 && v.Sign() != 0 && (v.Sign() > 0) != (st.dir > 0):
		// between 49 % and half travel, but on the other side: the direction that is sounding is deflected by
		// less than 49 % (not at all), so it is off; the new side has not reached half travel yet
		newDir = 0
	}
	var wantOff *Pair
	var wantOn *Pair
	maybeOn := false
	target := func(dir int) *Pair {
		var note *int
		off := 0
		if dir > 0 {
			note, off = a.Note, a.Off
		} else {
			note, off = a.NoteNeg, a.OffNeg
		}
		if note == nil {
			return nil
		}
		p := *note + 12*m.Oct + m.Semi
		if p < 0 || p > 127 {
			return nil
		}
		return &Pair{(m.Ch-1+off)%16 + 1, p}
	}
	if newDir != st.dir {
		m.probe(fmt.Sprintf("keyaxis_dir_%d_to_%d", st.dir, newDir))
		if st.pair != nil {
			wantOff = st.pair
		}
		if newDir != 0 {
			wantOn = target(newDir)
			if wantOn == nil {
				m.probe("keyaxis_silent_direction")
			}
		}
		st.dir, st.pair = newDir, wantOn
	} else if st.dir != 0 && st.pair == nil {
		// still deflected in a direction whose note could not sound when the threshold was crossed
		// (transposed out of range): a late Note On is tolerated, nothing is required
		if t := target(st.dir); t != nil {
			var note *int
			if st.dir > 0 {
				note = a.Note
			} else {
				note = a.NoteNeg
			}
			if note != nil {
				maybeOn = true
				wantOn = t
			}
		}
	}
	// compare as a multiset
	var sawOn, sawOff bool
	for _, g := range got {
		switch {
		case g.Kind == 'N' && wantOn != nil && !sawOn && g.Ch == wantOn.Ch && g.A == wantOn.Pitch:
			sawOn = true
		case g.Kind == 'F' && wantOff != nil && !sawOff && g.Ch == wantOff.Ch && g.A == wantOff.Pitch:
			sawOff = true
		default:
			cl := "keyaxis_unexpected_message"
			if g.Kind == 'F' {
				cl = "keyaxis_off_not_pinned"
			}
			return viol(cl, fmt.Sprintf("%s (direction now %d): expected on=%v off=%v, emitted %s", ev, st.dir, wantOn, wantOff, fmtMsgs(got)), "C08")
		}
	}
	if maybeOn {
		if sawOn {
			st.pair = wantOn
		}
		return nil
	}
	if wantOn != nil && wantOff != nil && sawOn && sawOff {
		// a jump from one direction to the other: the two never sound together, so the Off comes first - which also
		// matters when transposition made the two directions the same pitch (an Off after the On silences both)
		on, off := -1, -1
		for i, g := range got {
			if g.Kind == 'N' && on < 0 {
				on = i
			}
			if g.Kind == 'F' && off < 0 {
				off = i
			}
		}
		if on < off {
			return viol("keyaxis_both_directions_sound", fmt.Sprintf("%s jumps from one direction to the other: Note On %v was sent before Note Off %v (emitted %s)", ev, *wantOn, *wantOff, fmtMsgs(got)), "C08")
		}
	}
	if wantOn != nil && !sawOn {
		return viol("keyaxis_missing_on", fmt.Sprintf("%s reached half travel: expected Note On %v, emitted %s", ev, *wantOn, fmtMsgs(got)), "C08")
	}
	if wantOff != nil && !sawOff {
		props := []string{"C08", "C01"}
		return viol("keyaxis_missing_off", fmt.Sprintf("%s left direction: expected Note Off %v, emitted %s (cc_learning gate active: %v)", ev, *wantOff, fmtMsgs(got), gated), props...)
	}
	return nil
}

// physAxis returns any description of the axis (the physical range is the same in every mapping).
func (m *Dev) physAxis(code uint16) *AxisDesc {
	for mi := range m.D.Mappings {
		for si := range m.D.Mappings[mi].Analog {
			for ai := range m.D.Mappings[mi].Analog[si].Axes {
				if a := &m.D.Mappings[mi].Analog[si].Axes[ai]; a.Code == code {
					return a
				}
			}
		}
	}
	return nil
}

// actionAxis models an axis of type "action" (hats in the shipped gamepad configurations): reaching half
// travel in a direction is a press of that direction's action, leaving it a release. Only histories in which
// no action key is held meanwhile are generated, so the pair-reset rule never applies here.
func (m *Dev) actionAxis(ev Event, a *AxisDesc, st *axisState, f *big.Rat, canNeg bool, got []Msg) *Violation {
	v := f
	if !canNeg {
		v = new(big.Rat).Sub(new(big.Rat).Mul(rat(2), f), rOne)
	}
	newDir := st.actDir
	switch {
	case v.Cmp(rHalf) >= 0:
		newDir = 1
	case v.Cmp(new(big.Rat).Neg(rHalf)) <= 0:
		newDir = -1
	case abs(v).Cmp(r49) < 0:
		newDir = 0
	}
	if newDir == st.actDir {
		if len(got) != 0 {
			return viol("action_axis_emits", fmt.Sprintf("%s stays in direction %d but emitted %s", ev, st.actDir, fmtMsgs(got)), "C04")
		}
		return nil
	}
	old := st.actDir
	st.actDir = newDir
	st.actSide = 0
	if newDir != 0 {
		rest := int32(0)
		if pa := m.physAxis(ev.Code); pa != nil && pa.Min == 0 {
			rest = (pa.Max + 1) / 2
		}
		if ev.Value > rest {
			st.actSide = 1
		} else if ev.Value < rest {
			st.actSide = -1
		}
	}
	act := func(dir int) string {
		if dir > 0 && a.Action != nil {
			return *a.Action
		}
		if dir < 0 && a.ActionNeg != nil {
			return *a.ActionNeg
		}
		return ""
	}
	// release of the direction left
	if o := act(old); o == "cc_learning" {
		m.Learning = false
	}
	n := act(newDir)
	m.probe("action_axis_" + n)
	if n == "" {
		if len(got) != 0 {
			return viol("action_axis_emits", fmt.Sprintf("%s (no action in direction %d) emitted %s", ev, newDir, fmtMsgs(got)), "C04")
		}
		return nil
	}
	if o := act(-newDir); o == "cc_learning" && n != "cc_learning" {
		m.Learning = false
	}
	if strings.HasPrefix(n, "channel_") || strings.HasPrefix(n, "mapping_") {
		m.destEpoch++
	}
	switch n {
	case "panic":
		return m.panicStep(got)
	case "octave_up":
		m.Oct++
	case "octave_down":
		m.Oct--
	case "semitone_up":
		m.Semi++
	case "semitone_down":
		m.Semi--
	case "channel_up":
		if m.Ch < 16 {
			m.Ch++
		}
	case "channel_down":
		if m.Ch > 1 {
			m.Ch--
		}
	case "mapping_up":
		if m.Map < len(m.D.Mappings)-1 {
			m.Map++
		}
	case "mapping_down":
		if m.Map > 0 {
			m.Map--
		}
	case "cc_learning":
		m.Learning = true
	}
	if len(got) != 0 {
		return viol("action_emits", fmt.Sprintf("action %s triggered by %s emitted %s", n, ev, fmtMsgs(got)), "C02", "C04")
	}
	return nil
}
