package model

import (
	"fmt"
	"regexp"
	"strings"
)

// Rnd is the part of the PRNG the mutators need.
type Rnd interface {
	Intn(n int) int
	Chance(p float64) bool
}

var kvRe = regexp.MustCompile(`^(\s*)([A-Za-z0-9_."' -]+?)\s*=\s*(.+?)\s*(#.*)?$`)

// alternative spellings of a value: other TOML types and odd but valid TOML forms
func retype(r Rnd, v string) string {
	alts := []string{
		`"text"`, `""`, `'literal'`, `0`, `-1`, `1`, `255`, `256`, `65536`, `9223372036854775807`, `-9223372036854775808`, `0x10`, `0o17`, `0b101`, `1_000`,
		`1.5`, `-0.0`, `1e3`, `inf`, `-inf`, `nan`, `true`, `false`, `1979-05-27T07:32:00Z`, `1979-05-27`, `07:32:00`,
		`[]`, `[1, 2]`, `["a"]`, `[[1], ["x"]]`, `{}`, `{ a = 1 }`, `{ type = "cc" }`, `{ type = "action" }`, `{ type = "key" }`, `{ type = "cc", cc = {} }`,
		`"""multi
line"""`, `"\u0000"`, `"KEY_A"`, `"c3"`, `"c3,1"`, `"c3,1,2"`, `",,"`, `"-1"`, `"128"`, `"h9"`, `"99999999999999999999"`,
	}
	return alts[r.Intn(len(alts))]
}

// MutateTOML applies n small edits a user could make (or a broken editor could leave behind) to a
// configuration text: delete / duplicate / move a line, retype a value, rename a key, make a key dotted,
// change table headers, insert stray text.
func MutateTOML(r Rnd, text string, n int) (string, []string) {
	lines := strings.Split(text, "\n")
	var log []string
	for i := 0; i < n && len(lines) > 0; i++ {
		li := r.Intn(len(lines))
		switch r.Intn(11) {
		case 10:
			// a number of a size nobody means: a slip of the finger on a numeric default
			var cand []int
			for lj, l := range lines {
				if m := kvRe.FindStringSubmatch(l); m != nil {
					switch strings.TrimSpace(m[2]) {
					case "octave", "semitone", "channel", "velocity":
						cand = append(cand, lj)
					}
				}
			}
			if len(cand) > 0 {
				lj := cand[r.Intn(len(cand))]
				m := kvRe.FindStringSubmatch(lines[lj])
				nv := []string{"9223372036854775807", "-9223372036854775808", "1000000000000", "-4294967296", "2147483648", "65536", "-129", "128"}[r.Intn(8)]
				log = append(log, fmt.Sprintf("line %d: %s = %s -> %s", lj, strings.TrimSpace(m[2]), m[3], nv))
				lines[lj] = m[1] + m[2] + " = " + nv
			}
		case 0:
			log = append(log, fmt.Sprintf("delete line %d %q", li, lines[li]))
			lines = append(lines[:li], lines[li+1:]...)
		case 1:
			log = append(log, fmt.Sprintf("duplicate line %d %q", li, lines[li]))
			lines = append(lines[:li+1], append([]string{lines[li]}, lines[li+1:]...)...)
		case 2:
			to := r.Intn(len(lines))
			log = append(log, fmt.Sprintf("move line %d to %d", li, to))
			l := lines[li]
			lines = append(lines[:li], lines[li+1:]...)
			if to > len(lines) {
				to = len(lines)
			}
			lines = append(lines[:to], append([]string{l}, lines[to:]...)...)
		case 3, 4, 5:
			// retype a value
			for try := 0; try < 20; try++ {
				lj := r.Intn(len(lines))
				if m := kvRe.FindStringSubmatch(lines[lj]); m != nil {
					nv := retype(r, m[3])
					log = append(log, fmt.Sprintf("line %d: %s = %s -> %s", lj, strings.TrimSpace(m[2]), m[3], nv))
					lines[lj] = m[1] + m[2] + " = " + nv
					break
				}
			}
		case 6:
			// rename / dot a key
			for try := 0; try < 20; try++ {
				lj := r.Intn(len(lines))
				if m := kvRe.FindStringSubmatch(lines[lj]); m != nil {
					k := strings.TrimSpace(m[2])
					nk := []string{k + "x", "a." + k, k + ".b", `"` + k + `"`, "x" + k, "KEY_NOPE", "xzz", "x1ffff", "ABS_NOPE", strings.ToLower(k), `""`, "x", `" "`}[r.Intn(13)]
					log = append(log, fmt.Sprintf("line %d: key %s -> %s", lj, k, nk))
					lines[lj] = m[1] + nk + " = " + m[3]
					break
				}
			}
		case 7:
			// table headers
			for try := 0; try < 20; try++ {
				lj := r.Intn(len(lines))
				t := strings.TrimSpace(lines[lj])
				if strings.HasPrefix(t, "[") {
					nt := []string{strings.Replace(t, "[[", "[", 1), strings.Replace(t, "[", "[[", 1), "[" + strings.Trim(t, "[]") + ".x]", "[x]", "[[mapping]]", "[mapping]", "[mapping.keys.map]", "[[mapping.analog]]"}[r.Intn(8)]
					log = append(log, fmt.Sprintf("line %d: header %s -> %s", lj, t, nt))
					lines[lj] = nt
					break
				}
			}
		case 8:
			ins := []string{"garbage", "= 1", "[", "]]", "x = ", `y = "unterminated`, "\x00", "\xff\xfe", "[[mapping]]", "  [[mapping.analog]]", "    [mapping.analog.map]", `      ABS_X = { type = "action" }`,
				`      ABS_Y = { type = "action", action = "nope" }`, `      ABS_Z = { type = "key" }`, `      ABS_RX = { type = "cc" }`, `    default_deadzone = "x"`, `    [mapping.analog.deadzones]`, `      ABS_X = 1`}[r.Intn(18)]
			log = append(log, fmt.Sprintf("insert %q at %d", ins, li))
			lines = append(lines[:li], append([]string{ins}, lines[li:]...)...)
		case 9:
			// drop a whole block (from a header to the next header)
			for try := 0; try < 20; try++ {
				lj := r.Intn(len(lines))
				if strings.HasPrefix(strings.TrimSpace(lines[lj]), "[") {
					end := lj + 1
					for end < len(lines) && !strings.HasPrefix(strings.TrimSpace(lines[end]), "[") {
						end++
					}
					keepHeader := r.Chance(0.5)
					log = append(log, fmt.Sprintf("drop block at line %d (%d lines, keep header %v)", lj, end-lj, keepHeader))
					if keepHeader {
						lj++
					}
					if lj < end {
						lines = append(lines[:lj], lines[end:]...)
					}
					break
				}
			}
		}
	}
	return strings.Join(lines, "\n"), log
}

// StorageFault damages the bytes of a file the way storage or an interrupted save does.
func StorageFault(r Rnd, data []byte) ([]byte, string) {
	if len(data) == 0 {
		return data, "empty"
	}
	switch r.Intn(5) {
	case 0:
		n := r.Intn(len(data))
		return data[:n], fmt.Sprintf("truncated at %d of %d", n, len(data))
	case 1:
		d := append([]byte(nil), data...)
		i := r.Intn(len(d))
		d[i] ^= 1 << uint(r.Intn(8))
		return d, fmt.Sprintf("bit flip at %d", i)
	case 2:
		// torn save: the tail still holds the previous (longer / different) content
		n := r.Intn(len(data))
		d := append(append([]byte(nil), data[:n]...), []byte("\n[defaults]\n  octave = 7\n# tail of the previous version\n")...)
		return d, fmt.Sprintf("torn at %d", n)
	case 3:
		d := append([]byte(nil), data...)
		i := r.Intn(len(d))
		j := i + r.Intn(64)
		if j > len(d) {
			j = len(d)
		}
		for k := i; k < j; k++ {
			d[k] = 0
		}
		return d, fmt.Sprintf("zeroed %d..%d", i, j)
	default:
		return nil, "zero length"
	}
}
