package model

import (
	"fmt"
	"sort"
)

// LedFrameCheck is the reference for property C17: it judges the last LED frame received by the
// (fake) OpenRGB server against the model state. Layout gives, per LED index, the key code the LED
// belongs to (ok=false for LEDs that are not keys HIDI knows).
type LedLayout struct {
	Names []string
	Codes []uint16
	Known []bool
}

type Ext map[int]map[int]bool // channel (1..16) -> note -> sounding on MIDI input

func (e Ext) Apply(b []byte) {
	if len(b) < 3 {
		return
	}
	ch := int(b[0]&0x0f) + 1
	switch b[0] & 0xf0 {
	case 0x90:
		if b[2] == 0 {
			delete(e[ch], int(b[1]))
		} else {
			if e[ch] == nil {
				e[ch] = map[int]bool{}
			}
			e[ch][int(b[1])] = true
		}
	case 0x80:
		delete(e[ch], int(b[1]))
	}
}

// Palette holds what a run has learned about colours the statement only fixes relationally.
type Palette struct {
	Chan  map[int][3]byte    // channel -> colour
	Class map[string][3]byte // "<action>/<class>" -> colour
}

func NewPalette() *Palette { return &Palette{Chan: map[int][3]byte{}, Class: map[string][3]byte{}} }

func near(a [3]byte, c int, tol int) bool {
	want := [3]int{c >> 16 & 0xff, c >> 8 & 0xff, c & 0xff}
	for i := 0; i < 3; i++ {
		d := int(a[i]) - want[i]
		if d < -tol || d > tol {
			return false
		}
	}
	return true
}

func col(c int) string     { return fmt.Sprintf("#%06x", c) }
func rgb(a [3]byte) string { return fmt.Sprintf("#%02x%02x%02x", a[0], a[1], a[2]) }

func clamp2(v int) int {
	if v < 0 {
		return 0
	}
	if v > 2 {
		return 2
	}
	return v
}

// CheckFrame compares one frame with the model. ext is the MIDI-input note model.
func (m *Dev) CheckFrame(lay *LedLayout, frame [][3]byte, ext Ext, pal *Palette) *Violation {
	if len(frame) != len(lay.Names) {
		return viol("led_frame_size", fmt.Sprintf("frame has %d colours, the controller has %d LEDs", len(frame), len(lay.Names)), "C17")
	}
	offset := 12*m.Oct + m.Semi
	mp := &m.D.Mappings[m.Map]
	// keys of the current mapping, whichever handler of this device reports them: code -> base note. Sections for
	// sub-handlers the device does not have (a configuration shared by several models) say nothing about its keys.
	base := map[uint16]int{}
	for _, sk := range mp.Keys {
		has := false
		for _, h := range m.D.Handlers {
			has = has || h == sk.Sub
		}
		if !has {
			continue
		}
		for _, k := range sk.Keys {
			base[k.Code] = k.Note
		}
	}
	own := map[int]bool{}
	for _, p := range m.held {
		if p != nil {
			own[p.Pitch] = true
		}
	}
	actionOf := map[uint16]string{}
	for _, a := range m.D.Actions {
		actionOf[a.Code] = a.Action
	}
	// an LED index may be claimed by several roles only if the same key is listed twice; use the last
	for i, name := range lay.Names {
		if !lay.Known[i] {
			continue
		}
		code := lay.Codes[i]
		got := frame[i]
		if a, ok := actionOf[code]; ok {
			var class string
			switch a {
			case "octave_up":
				class = fmt.Sprint(clamp2(m.Oct))
			case "octave_down":
				class = fmt.Sprint(clamp2(-m.Oct))
			case "semitone_up":
				class = fmt.Sprint(clamp2(m.Semi))
			case "semitone_down":
				class = fmt.Sprint(clamp2(-m.Semi))
			case "mapping_up":
				class = fmt.Sprint(m.Map == len(m.D.Mappings)-1)
			case "mapping_down":
				class = fmt.Sprint(m.Map == 0)
			case "channel_up":
				class = fmt.Sprintf("ch%d/%v", m.Ch, m.Ch == 16)
			case "channel_down":
				class = fmt.Sprintf("ch%d/%v", m.Ch, m.Ch == 1)
			default:
				continue // panic, multinote, cc_learning: colours not specified
			}
			key := a + "/" + class
			if prev, ok := pal.Class[key]; ok {
				if prev != got {
					return viol("led_state_key_inconsistent", fmt.Sprintf("LED %q (%s) shows %s for state class %s, earlier it showed %s for the same class", name, a, rgb(got), class, rgb(prev)), "C17")
				}
			} else {
				// a different class of the same key must look different (not demanded of the channel keys:
				// the statement does not say that all sixteen channels are told apart)
				var ks []string
				if a == "channel_up" || a == "channel_down" {
					pal.Class[key] = got
				}
				for k := range pal.Class {
					ks = append(ks, k)
				}
				sort.Strings(ks)
				for _, k := range ks {
					if a == "channel_up" || a == "channel_down" {
						break
					}
					if len(k) > len(a) && k[:len(a)+1] == a+"/" && pal.Class[k] == got {
						return viol("led_state_key_not_reflecting", fmt.Sprintf("LED %q (%s) shows %s both for state class %s and for %s", name, a, rgb(got), class, k[len(a)+1:]), "C17")
					}
				}
				pal.Class[key] = got
			}
			if (a == "channel_up" && m.Ch != 16) || (a == "channel_down" && m.Ch != 1) {
				if prev, ok := pal.Chan[m.Ch]; ok && prev != got {
					return viol("led_channel_colour_inconsistent", fmt.Sprintf("LED %q shows %s for channel %d, the channel colour seen before is %s", name, rgb(got), m.Ch, rgb(prev)), "C17")
				}
				pal.Chan[m.Ch] = got
			}
			continue
		}
		b, mapped := base[code]
		if !mapped {
			continue // LEDs of keys without a role: not specified
		}
		x := b + offset
		if x < 0 || x > 127 {
			if !near(got, m.D.Colors["unavailable"], 0) {
				return viol("led_out_of_range_key", fmt.Sprintf("LED %q: key pitch %d is outside 0..127, expected the unavailable colour %s, got %s", name, x, col(m.D.Colors["unavailable"]), rgb(got)), "C17")
			}
			continue
		}
		// overlays: every applicable one is acceptable (the statement gives no precedence)
		var opts []string
		okc := false
		var unseen []int
		if own[x] {
			opts = append(opts, "active "+col(m.D.Colors["active"]))
			okc = okc || near(got, m.D.Colors["active"], 0)
		}
		for ch := 1; ch <= 16; ch++ {
			if !ext[ch][x] {
				continue
			}
			if ch == m.Ch {
				opts = append(opts, "active_external "+col(m.D.Colors["active_external"]))
				okc = okc || near(got, m.D.Colors["active_external"], 0)
			} else if prev, ok := pal.Chan[ch]; ok {
				opts = append(opts, fmt.Sprintf("colour of channel %d %s", ch, rgb(prev)))
				okc = okc || prev == got
			} else {
				opts = append(opts, fmt.Sprintf("colour of channel %d (not seen yet)", ch))
				unseen = append(unseen, ch)
			}
		}
		if !okc && len(unseen) > 0 {
			// a channel colour the run has not seen yet: it must at least differ from the plain key colours;
			// it is learned only when it is the single applicable overlay
			plain := near(got, m.D.Colors["c"], 2) || near(got, m.D.Colors["black"], 2) || near(got, m.D.Colors["white"], 2) || near(got, m.D.Colors["unavailable"], 0)
			if !plain {
				okc = true
				if len(opts) == 1 {
					pal.Chan[unseen[0]] = got
				}
			}
		}
		if len(opts) > 0 {
			if !okc {
				return viol("led_highlight", fmt.Sprintf("LED %q (pitch %d): expected one of %v, got %s", name, x, opts, rgb(got)), "C17")
			}
			continue
		}
		if mp.Name == "Control" {
			continue
		}
		want, wn := m.D.Colors["white"], "white"
		switch x % 12 {
		case 0:
			want, wn = m.D.Colors["c"], "c"
		case 1, 3, 6, 8, 10:
			want, wn = m.D.Colors["black"], "black"
		}
		if !near(got, want, 2) {
			return viol("led_key_colour", fmt.Sprintf("LED %q: key pitch %d (class %d) must show the %s colour %s, got %s", name, x, x%12, wn, col(want), rgb(got)), "C17")
		}
	}
	return nil
}

// CheckRed is the disconnect clause: the last frame is all red.
func CheckRed(frame [][3]byte) *Violation {
	for i, c := range frame {
		if c != [3]byte{0xff, 0, 0} {
			return viol("led_not_red_after_disconnect", fmt.Sprintf("after disconnect LED %d shows %s, expected pure red", i, rgb(c)), "C17")
		}
	}
	return nil
}
