// Package model holds the structured description of a HIDI device configuration (the thing the
// generators draw and render to TOML), and the reference models written from the property
// statements. Nothing here reads HIDI's parsed configuration or device internals.
package model

import (
	"fmt"
	"sort"
	"strings"
)

type KeyDesc struct {
	Name     string // key name as written in the file (KEY_A or x1e)
	Code     uint16
	Note     int    // 0..127 (or an invalid value in invalidation profiles)
	NoteText string // how the note is written: "60", "c3", "C#-1"
	Offset   int
	HasOff   bool // written as "note,offset"
}

type AxisDesc struct {
	Name string
	Code uint16
	Type string // cc | pitch_bend | key | action

	CC, CCNeg     *int
	Note, NoteNeg *int
	Off, OffNeg   int
	HasOff        bool
	HasOffNeg     bool
	Action        *string
	ActionNeg     *string
	Flip          bool
	DZCenter      bool
	Deadzone      *float64 // specific deadzone

	// what the (simulated) kernel reports for the axis
	Min, Max int32
	// NoInfo: discovery could not read the axis ranges (it logs "Failed to fetch absinfos" and carries on): the
	// device sees a 0..0 range while the events carry positions of the real range Min..Max
	NoInfo bool
}

type SubKeys struct {
	Sub  string
	Keys []KeyDesc
}

type SubAnalog struct {
	Sub       string
	DefaultDZ *float64
	Axes      []AxisDesc
}

type MappingDesc struct {
	Name   string
	Keys   []SubKeys
	Analog []SubAnalog
}

type ActionKey struct {
	Name   string
	Code   uint16
	Action string
}

type Desc struct {
	Mode     string
	Exit     []ActionKey // only Name/Code used
	HasExit  bool
	Octave   int
	Semitone int
	Channel  int
	HasChan  bool
	Mapping  string
	Velocity int
	HasVel   bool
	Actions  []ActionKey
	Colors   map[string]int // white, black, c, unavailable, other, active, active_external
	ID       [4]uint16
	Uniq     string
	Mappings []MappingDesc

	// sub-handler names of the simulated device, index = handler number ("" is the main handler)
	Handlers []string
}

func fl(f float64) string {
	s := fmt.Sprintf("%g", f)
	if !strings.ContainsAny(s, ".eE") && !strings.Contains(s, "inf") && !strings.Contains(s, "nan") {
		s += ".0"
	}
	s = strings.Replace(s, "+Inf", "inf", 1)
	s = strings.Replace(s, "-Inf", "-inf", 1)
	s = strings.Replace(s, "NaN", "nan", 1)
	return s
}

// TOML renders the description the way a user would write the file.
func (d *Desc) TOML() string {
	var b strings.Builder
	fmt.Fprintf(&b, "collision_mode = %q\n", d.Mode)
	if d.HasExit {
		var names []string
		for _, k := range d.Exit {
			names = append(names, fmt.Sprintf("%q", k.Name))
		}
		fmt.Fprintf(&b, "exit_sequence = [%s]\n", strings.Join(names, ", "))
	}
	fmt.Fprintf(&b, "\n[identifier]\n  bus = 0x%02x\n  vendor = 0x%02x\n  product = 0x%02x\n  version = 0x%02x\n", d.ID[0], d.ID[1], d.ID[2], d.ID[3])
	if d.Uniq != "" {
		fmt.Fprintf(&b, "  uniq = %q\n", d.Uniq)
	}
	fmt.Fprintf(&b, "\n[defaults]\n  octave = %d\n  semitone = %d\n", d.Octave, d.Semitone)
	if d.HasChan {
		fmt.Fprintf(&b, "  channel = %d\n", d.Channel)
	}
	fmt.Fprintf(&b, "  mapping = %q\n", d.Mapping)
	if d.HasVel {
		fmt.Fprintf(&b, "  velocity = %d\n", d.Velocity)
	}
	fmt.Fprintf(&b, "\n[action_mapping]\n")
	for _, a := range d.Actions {
		fmt.Fprintf(&b, "  %s = %q\n", a.Name, a.Action)
	}
	if len(d.Colors) > 0 {
		fmt.Fprintf(&b, "\n[open_rgb]\n")
		var ks []string
		for k := range d.Colors {
			ks = append(ks, k)
		}
		sort.Strings(ks)
		for _, k := range ks {
			fmt.Fprintf(&b, "  %s = 0x%06x\n", k, d.Colors[k])
		}
	}
	for _, m := range d.Mappings {
		fmt.Fprintf(&b, "\n[[mapping]]\n  name = %q\n", m.Name)
		for _, sk := range m.Keys {
			fmt.Fprintf(&b, "  [[mapping.keys]]\n    subhandler = %q\n    [mapping.keys.map]\n", sk.Sub)
			for _, k := range sk.Keys {
				v := k.NoteText
				if k.HasOff {
					v = fmt.Sprintf("%s,%d", k.NoteText, k.Offset)
				}
				fmt.Fprintf(&b, "      %s = %q\n", k.Name, v)
			}
		}
		for _, sa := range m.Analog {
			fmt.Fprintf(&b, "  [[mapping.analog]]\n    subhandler = %q\n", sa.Sub)
			if sa.DefaultDZ != nil {
				fmt.Fprintf(&b, "    default_deadzone = %s\n", fl(*sa.DefaultDZ))
			}
			fmt.Fprintf(&b, "    [mapping.analog.map]\n")
			for _, a := range sa.Axes {
				fmt.Fprintf(&b, "      %s = %s\n", a.Name, a.inline())
			}
			dz := false
			for _, a := range sa.Axes {
				if a.Deadzone != nil {
					if !dz {
						fmt.Fprintf(&b, "    [mapping.analog.deadzones]\n")
						dz = true
					}
					fmt.Fprintf(&b, "      %s = %s\n", a.Name, fl(*a.Deadzone))
				}
			}
		}
	}
	return b.String()
}

func (a *AxisDesc) inline() string {
	parts := []string{fmt.Sprintf("type = %q", a.Type)}
	add := func(k string, v *int) {
		if v != nil {
			parts = append(parts, fmt.Sprintf("%s = %d", k, *v))
		}
	}
	add("cc", a.CC)
	add("cc_negative", a.CCNeg)
	add("note", a.Note)
	add("note_negative", a.NoteNeg)
	if a.HasOff {
		parts = append(parts, fmt.Sprintf("channel_offset = %d", a.Off))
	}
	if a.HasOffNeg {
		parts = append(parts, fmt.Sprintf("channel_offset_negative = %d", a.OffNeg))
	}
	if a.Action != nil {
		parts = append(parts, fmt.Sprintf("action = %q", *a.Action))
	}
	if a.ActionNeg != nil {
		parts = append(parts, fmt.Sprintf("action_negative = %q", *a.ActionNeg))
	}
	if a.Flip {
		parts = append(parts, "flip_axis = true")
	}
	if a.DZCenter {
		parts = append(parts, "deadzone_at_center = true")
	}
	return "{ " + strings.Join(parts, ", ") + " }"
}

var pitchNames = []string{"C", "C#", "D", "D#", "E", "F", "F#", "G", "G#", "A", "A#", "B"}

// NoteName gives the name of a MIDI note number per the documented convention: C-2 is 0, G8 is 127.
func NoteName(n int) string { return fmt.Sprintf("%s%d", pitchNames[n%12], n/12-2) }

// MappingIndex returns the index of the named mapping (-1 if absent).
func (d *Desc) MappingIndex(name string) int {
	for i, m := range d.Mappings {
		if m.Name == name {
			return i
		}
	}
	return -1
}

// Clone makes a deep copy (through the fields generators mutate).
func (d *Desc) Clone() *Desc {
	c := *d
	c.Exit = append([]ActionKey(nil), d.Exit...)
	c.Actions = append([]ActionKey(nil), d.Actions...)
	c.Handlers = append([]string(nil), d.Handlers...)
	c.Colors = map[string]int{}
	for k, v := range d.Colors {
		c.Colors[k] = v
	}
	c.Mappings = nil
	for _, m := range d.Mappings {
		mm := MappingDesc{Name: m.Name}
		for _, sk := range m.Keys {
			mm.Keys = append(mm.Keys, SubKeys{Sub: sk.Sub, Keys: append([]KeyDesc(nil), sk.Keys...)})
		}
		for _, sa := range m.Analog {
			s2 := SubAnalog{Sub: sa.Sub, DefaultDZ: sa.DefaultDZ}
			for _, a := range sa.Axes {
				s2.Axes = append(s2.Axes, a)
			}
			mm.Analog = append(mm.Analog, s2)
		}
		c.Mappings = append(c.Mappings, mm)
	}
	return &c
}
