package simrt

// Rng is a small, version-independent PRNG (splitmix64). Every choice of a run is
// drawn from streams derived from the run seed and a label, so that editing one
// dimension of a run (e.g. shrinking the workload) does not reshuffle the others.
type Rng struct{ s uint64 }

func NewRng(seed uint64, label string) *Rng {
	h := seed ^ 0x9e3779b97f4a7c15
	for i := 0; i < len(label); i++ {
		h = (h ^ uint64(label[i])) * 0x100000001b3
		h ^= h >> 29
	}
	r := &Rng{s: h}
	r.Uint64()
	r.Uint64()
	return r
}

//go:norace
func (r *Rng) Uint64() uint64 {
	r.s += 0x9e3779b97f4a7c15
	z := r.s
	z = (z ^ (z >> 30)) * 0xbf58476d1ce4e5b9
	z = (z ^ (z >> 27)) * 0x94d049bb133111eb
	return z ^ (z >> 31)
}

// Intn returns a value in [0,n). n<=0 yields 0.
//
//go:norace
func (r *Rng) Intn(n int) int {
	if n <= 1 {
		return 0
	}
	return int(r.Uint64() % uint64(n))
}

// Range returns a value in [lo,hi] inclusive.
func (r *Rng) Range(lo, hi int) int {
	if hi <= lo {
		return lo
	}
	return lo + r.Intn(hi-lo+1)
}

//go:norace
func (r *Rng) Float() float64 { return float64(r.Uint64()>>11) / float64(1<<53) }

// Chance returns true with probability p.
func (r *Rng) Chance(p float64) bool { return r.Float() < p }

// Perm returns a permutation of 0..n-1.
//
//go:norace
func (r *Rng) Perm(n int) []int {
	p := make([]int, n)
	for i := range p {
		p[i] = i
	}
	for i := n - 1; i > 0; i-- {
		j := r.Intn(i + 1)
		p[i], p[j] = p[j], p[i]
	}
	return p
}

// Pick returns one of the weights' indexes with probability proportional to the weight.
func (r *Rng) Pick(weights ...int) int {
	t := 0
	for _, w := range weights {
		t += w
	}
	if t <= 0 {
		return 0
	}
	x := r.Intn(t)
	for i, w := range weights {
		if x < w {
			return i
		}
		x -= w
	}
	return len(weights) - 1
}
