//go:build race

package simrt

import (
	"runtime"
	"unsafe"
)

// RaceBuild reports whether the binary was built with -race.
const RaceBuild = true

func raceDisable()                      { runtime.RaceDisable() }
func raceEnable()                       { runtime.RaceEnable() }
func raceAcquire(p unsafe.Pointer)      { runtime.RaceAcquire(p) }
func raceReleaseMerge(p unsafe.Pointer) { runtime.RaceReleaseMerge(p) }
