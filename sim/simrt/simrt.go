// Package simrt is the deterministic scheduler of the HIDI simulation.
//
// Exactly one goroutine of a run executes program code at any time: all others are
// either parked at a gate (Yield) or durably blocked (channel operation, timer,
// WaitGroup) inside a testing/synctest bubble. The scheduler goroutine waits for
// quiescence (synctest.Wait), picks one parked task with a seeded PRNG and releases it;
// when nothing is parked it advances the bubble's fake clock by a PRNG-chosen quantum.
//
// The scheduler's own synchronisation is hidden from the race detector
// (runtime.RaceDisable around gate operations, //go:norace on table accesses), so that a
// -race build reports exactly the happens-before races of the program under test although
// the execution is serial and replayable.
package simrt

import (
	"fmt"
	"runtime"
	"runtime/debug"
	"sort"
	"strings"
	"sync"
	"sync/atomic"
	"testing"
	"testing/synctest"
	"time"
)

type Policy int

const (
	PolicyUniform  Policy = iota // every parked task equally likely
	PolicySticky                 // keep running the same task with probability StickyP (long atomic stretches, rare preemption)
	PolicyPriority               // PCT-like: random priorities, a few PRNG-placed priority change points
)

func (p Policy) String() string {
	switch p {
	case PolicyUniform:
		return "uniform"
	case PolicySticky:
		return "sticky"
	case PolicyPriority:
		return "priority"
	}
	return "?"
}

type Config struct {
	Seed          uint64
	Policy        Policy
	StickyP       float64
	ChangePoints  int // PolicyPriority: number of priority change points
	MaxSteps      int
	MaxSimTime    time.Duration
	MinQuantum    time.Duration
	MaxQuantum    time.Duration
	ShuffleMaps   bool
	ShuffleSelect bool
	TraceLen      int
	// Unclean is called (inside the bubble) when tasks are still alive and making progress
	// after the root returned; the bubble could never end. It normally flushes results and
	// exits the process.
	Unclean func(Result)
}

type PanicInfo struct {
	Task  string
	Value string
	Stack string
}

type Result struct {
	Steps       int
	SimTime     time.Duration
	SchedHash   uint64
	Tasks       int
	Choices     int // decision points at which more than one task was parked
	MaxParked   int
	Stuck       bool
	StuckInfo   string
	Panics      []PanicInfo
	Leftover    []string // tasks that had not finished when the run ended (with the site they were last seen at)
	Trace       []string
	BubbleError string
}

type Task struct {
	ID       string
	idx      int
	nchild   int
	wake     chan struct{}
	state    int32 // 0 running or blocked, 1 parked at a gate, 2 parked at an idle gate
	site     string
	lastSite string
	done     bool
	prio     int
	gates    uint64
}

type goidEntry struct {
	goid uint64
	t    *Task
}

type Sim struct {
	cfg      Config
	mu       sync.Mutex
	tasks    []*Task
	byGoid   []goidEntry
	rngSched *Rng
	rngTime  *Rng
	rngMap   *Rng
	rngSel   *Rng
	steps    int
	start    time.Time
	hash     uint64
	choices  int
	maxPark  int
	draining bool
	last     *Task
	panics   []PanicInfo
	trace    []string
	stuck    bool
	stuckMsg string
	quantum  time.Duration
	changeAt []int
	stopped  bool
}

var cur atomic.Pointer[Sim]

// Active reports whether a simulation run is in progress.
func Active() bool { return cur.Load() != nil }

//go:norace
func goid() uint64 {
	var buf [40]byte
	n := runtime.Stack(buf[:], false)
	// "goroutine 123 [running]:"
	var id uint64
	for i := 10; i < n; i++ {
		c := buf[i]
		if c < '0' || c > '9' {
			break
		}
		id = id*10 + uint64(c-'0')
	}
	return id
}

//go:norace
func (s *Sim) self() *Task {
	id := goid()
	s.mu.Lock()
	var t *Task
	for i := len(s.byGoid) - 1; i >= 0; i-- {
		if s.byGoid[i].goid == id {
			t = s.byGoid[i].t
			break
		}
	}
	s.mu.Unlock()
	return t
}

//go:norace
func (s *Sim) newTask(parent *Task, site string) *Task {
	s.mu.Lock()
	t := &Task{wake: make(chan struct{}, 1), idx: len(s.tasks)}
	if parent == nil {
		t.ID = fmt.Sprintf("%d", countRoots(s.tasks))
	} else {
		t.ID = fmt.Sprintf("%s.%d", parent.ID, parent.nchild)
		parent.nchild++
	}
	t.site = site
	t.prio = s.rngSched.Intn(1 << 20)
	s.tasks = append(s.tasks, t)
	s.mu.Unlock()
	return t
}

//go:norace
func countRoots(ts []*Task) int {
	n := 0
	for _, t := range ts {
		if !strings.Contains(t.ID, ".") {
			n++
		}
	}
	return n
}

//go:norace
func (s *Sim) register(t *Task) {
	id := goid()
	s.mu.Lock()
	s.byGoid = append(s.byGoid, goidEntry{id, t})
	s.mu.Unlock()
}

//go:norace
func (s *Sim) unregister(t *Task) {
	s.mu.Lock()
	for i := range s.byGoid {
		if s.byGoid[i].t == t {
			s.byGoid = append(s.byGoid[:i], s.byGoid[i+1:]...)
			break
		}
	}
	t.done = true
	s.mu.Unlock()
}

//go:norace
func (t *Task) park(site string, kind int32) {
	t.lastSite = t.site
	t.site = site
	t.gates++
	t.state = kind
}

//go:norace
func (t *Task) bump() { t.gates++ }

//go:norace
func (s *Sim) isDraining() bool { return s.draining }

func gate(site string, kind int32) {
	s := cur.Load()
	if s == nil {
		return
	}
	raceDisable()
	t := s.self()
	if t == nil {
		raceEnable()
		return
	}
	if s.isDraining() {
		t.bump()
		raceEnable()
		return
	}
	t.park(site, kind)
	<-t.wake
	raceEnable()
}

// Yield is a scheduling point: the calling task parks until the scheduler picks it.
// Goroutines that are not tasks of the current run pass through.
func Yield(site string) { gate(site, 1) }

// WaitIdle parks the calling task until no other task is runnable (nothing is parked at an
// ordinary gate; pending timers do not count). It is the lock-step primitive of the harness.
func WaitIdle() { gate("idle", 2) }

// Go starts fn as a new task of the current run (or as a plain goroutine outside a run).
func Go(site string, fn func()) {
	s := cur.Load()
	if s == nil {
		go fn()
		return
	}
	raceDisable()
	parent := s.self()
	t := s.newTask(parent, site)
	raceEnable()
	go s.taskMain(t, fn)
}

func (s *Sim) taskMain(t *Task, fn func()) {
	raceDisable()
	s.register(t)
	if !s.isDraining() {
		t.park("entry:"+t.site, 1)
		<-t.wake
	}
	raceEnable()
	defer s.finish(t)
	fn()
}

func (s *Sim) finish(t *Task) {
	if r := recover(); r != nil {
		raceDisable()
		s.addPanic(PanicInfo{Task: t.ID, Value: fmt.Sprint(r), Stack: string(debug.Stack())})
		raceEnable()
	}
	raceDisable()
	s.unregister(t)
	raceEnable()
}

//go:norace
func (s *Sim) addPanic(p PanicInfo) {
	s.mu.Lock()
	s.panics = append(s.panics, p)
	s.mu.Unlock()
}

// SelfID returns the id of the calling task ("" outside a run).
func SelfID() string {
	s := cur.Load()
	if s == nil {
		return ""
	}
	raceDisable()
	defer raceEnable()
	t := s.self()
	if t == nil {
		return ""
	}
	return t.ID
}

// Now returns simulated time elapsed since the run started.
func Now() time.Duration {
	s := cur.Load()
	if s == nil {
		return 0
	}
	return time.Since(s.start)
}

// Steps returns the number of scheduling decisions made so far.
//
//go:norace
func Steps() int {
	s := cur.Load()
	if s == nil {
		return 0
	}
	return s.steps
}

// Sleep lets simulated time pass for the calling task.
func Sleep(d time.Duration) {
	Yield("sleep")
	time.Sleep(d)
	Yield("sleep.done")
}

// SelectOrder returns the order in which a rewritten select polls its n cases.
//
//go:norace
func SelectOrder(n int) []int {
	s := cur.Load()
	if s == nil || !s.cfg.ShuffleSelect {
		p := make([]int, n)
		for i := range p {
			p[i] = i
		}
		return p
	}
	return s.rngSel.Perm(n)
}

// Zero returns the zero value of a channel's element type (used by rewritten selects).
func Zero[T any](c <-chan T) (z T) { return }

// ZeroS is Zero for send-only or bidirectional channels.
func ZeroS[T any](c chan<- T) (z T) { return }

// Unsupported aborts a run that reaches a function the instrumenter could not rewrite.
func Unsupported(site string) {
	if cur.Load() != nil {
		panic("SIMGEN-UNSUPPORTED " + site)
	}
}

//go:norace
func (s *Sim) collect() (normal, idle []*Task, alive int) {
	s.mu.Lock()
	for _, t := range s.tasks {
		if t.done {
			continue
		}
		alive++
		switch t.state {
		case 1:
			normal = append(normal, t)
		case 2:
			idle = append(idle, t)
		}
	}
	s.mu.Unlock()
	return
}

//go:norace
func (s *Sim) pick(ts []*Task) *Task {
	if len(ts) == 1 {
		return ts[0]
	}
	s.choices++
	if len(ts) > s.maxPark {
		s.maxPark = len(ts)
	}
	switch s.cfg.Policy {
	case PolicySticky:
		if s.last != nil && s.rngSched.Float() < s.cfg.StickyP {
			for _, t := range ts {
				if t == s.last {
					return t
				}
			}
		}
		return ts[s.rngSched.Intn(len(ts))]
	case PolicyPriority:
		for _, at := range s.changeAt {
			if at == s.steps {
				// demote the currently highest-priority task
				best := ts[0]
				for _, t := range ts {
					if t.prio > best.prio {
						best = t
					}
				}
				best.prio = -s.steps
			}
		}
		best := ts[0]
		for _, t := range ts {
			if t.prio > best.prio {
				best = t
			}
		}
		return best
	default:
		return ts[s.rngSched.Intn(len(ts))]
	}
}

//go:norace
func (s *Sim) release(t *Task) {
	s.steps++
	h := s.hash
	h = (h ^ uint64(t.idx+1)) * 0x100000001b3
	for i := 0; i < len(t.site); i++ {
		h = (h ^ uint64(t.site[i])) * 0x100000001b3
	}
	s.hash = h
	if s.cfg.TraceLen > 0 {
		if len(s.trace) >= s.cfg.TraceLen {
			s.trace = s.trace[1:]
		}
		s.trace = append(s.trace, t.ID+"@"+t.site)
	}
	s.last = t
	t.state = 0
	t.wake <- struct{}{}
}

//go:norace
func (s *Sim) nextQuantum() time.Duration {
	lo, hi := s.cfg.MinQuantum, s.cfg.MaxQuantum
	if lo <= 0 {
		lo = 100 * time.Microsecond
	}
	if hi < lo {
		hi = lo
	}
	// log-uniform between lo and hi, with adaptive growth while nothing happens
	q := s.quantum
	if q < lo {
		q = lo
	}
	span := int64(hi / lo)
	if span > 1 {
		// choose exponent
		bits := 0
		for v := span; v > 1; v >>= 1 {
			bits++
		}
		e := s.rngTime.Intn(bits + 1)
		q = lo << uint(e)
		// jitter within the octave
		q += time.Duration(s.rngTime.Intn(int(q)))
		if q > hi {
			q = hi
		}
	}
	return q
}

//go:norace
func (s *Sim) describeAlive() string {
	var b strings.Builder
	s.mu.Lock()
	for _, t := range s.tasks {
		if t.done {
			continue
		}
		fmt.Fprintf(&b, "%s[state=%d at=%s prev=%s] ", t.ID, t.state, t.site, t.lastSite)
	}
	s.mu.Unlock()
	return b.String()
}

//go:norace
func (s *Sim) leftover() (ids []string, gates []uint64) {
	s.mu.Lock()
	for _, t := range s.tasks {
		if !t.done {
			ids = append(ids, t.ID+"@"+t.site)
			gates = append(gates, t.gates)
		}
	}
	s.mu.Unlock()
	return
}

//go:norace
func (s *Sim) setDraining() {
	s.mu.Lock()
	s.draining = true
	s.mu.Unlock()
}

// Stop asks the scheduler to end the run as soon as possible (used by the harness after a
// violation has been recorded and the world cannot be shut down cleanly).
//
//go:norace
func Stop() {
	if s := cur.Load(); s != nil {
		s.stopped = true
	}
}

func (s *Sim) loop(root func()) {
	raceDisable()
	defer raceEnable()
	rt := s.newTask(nil, "root")
	go s.taskMain(rt, root)
	for {
		synctest.Wait()
		if s.stopped {
			break
		}
		normal, idle, _ := s.collect()
		if len(normal) > 0 {
			s.quantum = 0
			s.release(s.pick(normal))
		} else if len(idle) > 0 {
			s.quantum = 0
			s.release(idle[0])
		} else {
			if rt.done {
				break
			}
			if time.Since(s.start) > s.cfg.MaxSimTime {
				s.stuck = true
				s.stuckMsg = "simulated-time backstop reached: " + s.describeAlive()
				break
			}
			time.Sleep(s.nextQuantum())
			continue
		}
		if s.steps > s.cfg.MaxSteps {
			s.stuck = true
			s.stuckMsg = "step backstop reached: " + s.describeAlive()
			break
		}
	}
	// drain: let every remaining goroutine run freely; gates become no-ops
	s.setDraining()
	normal, idle, _ := s.collect()
	for _, t := range append(normal, idle...) {
		t.state = 0
		t.wake <- struct{}{}
	}
	synctest.Wait()
}

func (s *Sim) result() Result {
	raceDisable()
	defer raceEnable()
	r := Result{Steps: s.steps, SimTime: time.Since(s.start), SchedHash: s.hash, Choices: s.choices,
		MaxParked: s.maxPark, Stuck: s.stuck, StuckInfo: s.stuckMsg, Trace: append([]string(nil), s.trace...)}
	s.mu.Lock()
	r.Tasks = len(s.tasks)
	r.Panics = append(r.Panics, s.panics...)
	s.mu.Unlock()
	r.Leftover, _ = s.leftover()
	sort.Strings(r.Leftover)
	return r
}

// Run executes root as task "0" of a fresh simulation inside a synctest bubble and returns
// when the root task has returned (or a backstop fired).
func Run(t *testing.T, cfg Config, root func()) (res Result) {
	if cfg.MaxSteps == 0 {
		cfg.MaxSteps = 2_000_000
	}
	if cfg.MaxSimTime == 0 {
		cfg.MaxSimTime = 10 * time.Minute
	}
	defer func() {
		cur.Store(nil)
		if r := recover(); r != nil {
			// synctest panics when blocked goroutines remain after the bubble's root returned
			res.BubbleError = fmt.Sprint(r)
		}
	}()
	synctest.Test(t, func(t *testing.T) {
		s := &Sim{cfg: cfg, start: time.Now()}
		s.rngSched = NewRng(cfg.Seed, "sched")
		s.rngTime = NewRng(cfg.Seed, "time")
		s.rngMap = NewRng(cfg.Seed, "maporder")
		s.rngSel = NewRng(cfg.Seed, "select")
		for i := 0; i < cfg.ChangePoints; i++ {
			s.changeAt = append(s.changeAt, s.rngSched.Intn(2000))
		}
		cur.Store(s)
		s.loop(root)
		res = s.result()
		if len(res.Leftover) > 0 {
			// are the leftovers still moving (timer loops)? then the bubble would never end
			_, g0 := s.leftover()
			time.Sleep(30 * time.Second)
			synctest.Wait()
			ids, g1 := s.leftover()
			moving := len(g0) != len(g1)
			for i := range g1 {
				if i < len(g0) && g0[i] != g1[i] {
					moving = true
				}
			}
			_ = ids
			if moving && cfg.Unclean != nil {
				cfg.Unclean(res)
			}
		}
	})
	return res
}
