// Package simrt is the deterministic scheduler of the HIDI simulation.
//
// Exactly one goroutine of a run executes program code at any time: all others are
// either parked at a gate (Yield) or durably blocked (channel operation, timer,
// WaitGroup) inside a testing/synctest bubble. The scheduler goroutine waits for
// quiescence (synctest.Wait), picks one parked task with a seeded PRNG and releases it;
// when nothing is parked it advances the bubble's fake clock by a PRNG-chosen quantum.
//
// The scheduler's own synchronisation is hidden from the race detector
// (runtime.RaceDisable around gate operations, //go:norace on table accesses), so that a
// -race build reports exactly the happens-before races of the program under test although
// the execution is serial and replayable.
package simrt

import (
	"fmt"
	"runtime"
	"runtime/debug"
	"sort"
	"strings"
	"sync"
	"sync/atomic"
	"testing"
	"testing/synctest"
	"time"
)

type Policy int

const (
	PolicyUniform  Policy = iota // every parked task equally likely
	PolicySticky                 // keep running the same task with probability StickyP (long atomic stretches, rare preemption)
	PolicyPriority               // PCT-like: random priorities, a few PRNG-placed priority change points
)

func (p Policy) String() string {
	switch p {
	case PolicyUniform:
		return "uniform"
	case PolicySticky:
		return "sticky"
	case PolicyPriority:
		return "priority"
	}
	return "?"
}

type Config struct {
	Seed          uint64
	Policy        Policy
	StickyP       float64
	ChangePoints  int // PolicyPriority: number of priority change points
	MaxSteps      int
	MaxSimTime    time.Duration
	MinQuantum    time.Duration
	MaxQuantum    time.Duration
	ShuffleMaps   bool
	ShuffleSelect bool
	TraceLen      int
	TraceTime     bool
	StallP        float64       // probability that the scheduler stalls (lets extra time pass) when a timer fires
	StallMax      time.Duration // upper bound of one stall
	// Unclean is called (inside the bubble) when tasks are still alive and making progress
	// after the root returned; the bubble could never end. It normally flushes results and
	// exits the process.
	Unclean func(Result)
}

type PanicInfo struct {
	Task  string
	Value string
	Stack string
}

type Result struct {
	Steps       int
	SimTime     time.Duration
	SchedHash   uint64
	Tasks       int
	Choices     int // decision points at which more than one task was parked
	MaxParked   int
	Stalls      int
	SpinSteps   int // scheduling steps charged as busy-waiting
	Stuck       bool
	StuckInfo   string
	Panics      []PanicInfo
	Leftover    []string // tasks that had not finished when the run ended (with the site they were last seen at)
	Trace       []string
	BubbleError string
}

type Task struct {
	ID         string
	idx        int
	nchild     int
	wake       chan struct{}
	state      int32 // 0 running or blocked, 1 parked at a gate, 2 parked at an idle gate
	site       string
	lastSite   string
	done       bool
	prio       int
	gates      uint64
	drainGates uint64
}

const maxTasks = 8192

type goidEntry struct {
	goid uint64
	t    *Task
}

type Sim struct {
	cfg Config
	mu  sync.Mutex
	// fixed arrays, no append/copy: the runtime's slice helpers are race-annotated even when called from
	// //go:norace functions, and these tables are touched from many goroutines inside hidden sections
	tasks     [maxTasks]*Task
	ntasks    int
	byGoid    [maxTasks]goidEntry
	ngoid     int
	rngSched  *Rng
	rngTime   *Rng
	rngMap    *Rng
	rngSel    *Rng
	steps     int
	start     time.Time
	hash      uint64
	choices   int
	maxPark   int
	draining  bool
	last      *Task
	panics    []PanicInfo
	trace     []string
	stuck     bool
	stuckMsg  string
	quantum   time.Duration
	changeAt  []int
	stopped   bool
	exitMu    sync.Mutex
	exits     int
	kick      chan struct{}
	stalls    int
	sameRun   int
	spins     int
	cpuDebt   time.Duration
	stallTime time.Duration
	winSteps  int
	winStart  time.Time
	escalate  bool
}

var cur atomic.Pointer[Sim]

// Active reports whether a simulation run is in progress.
func Active() bool { return cur.Load() != nil }

//go:norace
func goid() uint64 {
	var buf [40]byte
	n := runtime.Stack(buf[:], false)
	// "goroutine 123 [running]:"
	var id uint64
	for i := 10; i < n; i++ {
		c := buf[i]
		if c < '0' || c > '9' {
			break
		}
		id = id*10 + uint64(c-'0')
	}
	return id
}

//go:norace
func (s *Sim) self() *Task {
	id := goid()
	s.mu.Lock()
	var t *Task
	for i := s.ngoid - 1; i >= 0; i-- {
		if s.byGoid[i].goid == id {
			t = s.byGoid[i].t
			break
		}
	}
	s.mu.Unlock()
	return t
}

//go:norace
func (s *Sim) newTask(parent *Task, site string) *Task {
	s.mu.Lock()
	if s.ntasks >= maxTasks {
		s.mu.Unlock()
		panic("simrt: too many tasks in one run")
	}
	t := &Task{wake: make(chan struct{}, 1), idx: s.ntasks}
	// no fmt here: its printer pool is shared memory whose synchronisation the race detector cannot see
	// from inside the scheduler's hidden sections
	if parent == nil {
		t.ID = itoa(s.countRoots())
	} else {
		t.ID = parent.ID + "." + itoa(parent.nchild)
		parent.nchild++
	}
	t.site = site
	t.prio = s.rngSched.Intn(1 << 20)
	s.tasks[s.ntasks] = t
	s.ntasks++
	s.mu.Unlock()
	return t
}

//go:norace
func itoa(n int) string {
	if n == 0 {
		return "0"
	}
	var b [20]byte
	i := len(b)
	for n > 0 {
		i--
		b[i] = byte('0' + n%10)
		n /= 10
	}
	return string(b[i:])
}

//go:norace
func (s *Sim) countRoots() int {
	n := 0
	for i := 0; i < s.ntasks; i++ {
		if !strings.Contains(s.tasks[i].ID, ".") {
			n++
		}
	}
	return n
}

//go:norace
func (s *Sim) register(t *Task) {
	id := goid()
	s.mu.Lock()
	if s.ngoid < maxTasks {
		s.byGoid[s.ngoid] = goidEntry{id, t}
		s.ngoid++
	}
	s.mu.Unlock()
}

//go:norace
func (s *Sim) unregister(t *Task) {
	s.mu.Lock()
	for i := 0; i < s.ngoid; i++ {
		if s.byGoid[i].t == t {
			s.byGoid[i].goid = 0
			break
		}
	}
	t.done = true
	s.mu.Unlock()
}

//go:norace
func (t *Task) park(site string, kind int32) {
	t.lastSite = t.site
	t.site = site
	t.gates++
	t.state = kind
}

//go:norace
func (t *Task) bump() uint64 { t.drainGates++; t.gates++; return t.drainGates }

//go:norace
func (s *Sim) isDraining() bool { return s.draining }

func gate(site string, kind int32) {
	s := cur.Load()
	if s == nil {
		return
	}
	raceDisable()
	t := s.self()
	if t == nil {
		raceEnable()
		return
	}
	if s.isDraining() {
		// the run is over and gates are open; a task that still passes gates by the ten thousands is spinning
		// and would keep the bubble from ever ending: park it for good
		if t.bump() > 20000 {
			<-make(chan struct{})
		}
		raceEnable()
		return
	}
	t.park(site, kind)
	// wake the scheduler if it is letting simulated time pass: the clock must not run past the moment a
	// timer-woken task becomes runnable
	select {
	case s.kick <- struct{}{}:
	default:
	}
	<-t.wake
	raceEnable()
}

// Yield is a scheduling point: the calling task parks until the scheduler picks it.
// Goroutines that are not tasks of the current run pass through.
func Yield(site string) { gate(site, 1) }

// WaitIdle parks the calling task until no other task is runnable (nothing is parked at an
// ordinary gate; pending timers do not count). It is the lock-step primitive of the harness.
func WaitIdle() { gate("idle", 2) }

// Go starts fn as a new task of the current run (or as a plain goroutine outside a run).
func Go(site string, fn func()) {
	s := cur.Load()
	if s == nil {
		go fn()
		return
	}
	raceDisable()
	parent := s.self()
	t := s.newTask(parent, site)
	raceEnable()
	go s.taskMain(t, fn)
}

// GoDetached starts fn as a task that is not a child of the caller (harness peers started from inside
// a hook that runs on a goroutine of the program under test).
func GoDetached(site string, fn func()) {
	s := cur.Load()
	if s == nil {
		go fn()
		return
	}
	raceDisable()
	t := s.newTask(nil, site)
	raceEnable()
	go s.taskMain(t, fn)
}

func (s *Sim) taskMain(t *Task, fn func()) {
	raceDisable()
	s.register(t)
	if !s.isDraining() {
		t.park("entry:"+t.site, 1)
		select {
		case s.kick <- struct{}{}:
		default:
		}
		<-t.wake
	}
	raceEnable()
	defer s.finish(t)
	fn()
}

func (s *Sim) finish(t *Task) {
	if r := recover(); r != nil {
		raceDisable()
		s.addPanic(PanicInfo{Task: t.ID, Value: fmt.Sprint(r), Stack: string(debug.Stack())})
		raceEnable()
	}
	raceDisable()
	s.unregister(t)
	raceEnable()
	// visible to the race detector on purpose: what a finished task wrote happens-before whatever the
	// caller of Run reads after the run
	s.exitMu.Lock()
	s.exits++
	s.exitMu.Unlock()
}

//go:norace
func (s *Sim) addPanic(p PanicInfo) {
	s.mu.Lock()
	s.panics = append(s.panics, p)
	s.mu.Unlock()
}

// SelfID returns the id of the calling task ("" outside a run).
func SelfID() string {
	s := cur.Load()
	if s == nil {
		return ""
	}
	raceDisable()
	defer raceEnable()
	t := s.self()
	if t == nil {
		return ""
	}
	return t.ID
}

// Now returns simulated time elapsed since the run started.
func Now() time.Duration {
	s := cur.Load()
	if s == nil {
		return 0
	}
	return time.Since(s.start)
}

// Steps returns the number of scheduling decisions made so far.
//
//go:norace
func Steps() int {
	s := cur.Load()
	if s == nil {
		return 0
	}
	return s.steps
}

// Sleep lets simulated time pass for the calling task.
func Sleep(d time.Duration) {
	Yield("sleep")
	time.Sleep(d)
	Yield("sleep.done")
}

// SelectOrder returns the order in which a rewritten select polls its n cases.
//
//go:norace
func SelectOrder(n int) []int {
	s := cur.Load()
	if s == nil || !s.cfg.ShuffleSelect {
		p := make([]int, n)
		for i := range p {
			p[i] = i
		}
		return p
	}
	return s.rngSel.Perm(n)
}

// Zero returns the zero value of a channel's element type (used by rewritten selects).
func Zero[T any](c <-chan T) (z T) { return }

// ZeroS is Zero for send-only or bidirectional channels.
func ZeroS[T any](c chan<- T) (z T) { return }

// Unsupported aborts a run that reaches a function the instrumenter could not rewrite.
func Unsupported(site string) {
	if cur.Load() != nil {
		panic("SIMGEN-UNSUPPORTED " + site)
	}
}

//go:norace
func (s *Sim) collect() (normal, idle []*Task, alive int) {
	s.mu.Lock()
	for i := 0; i < s.ntasks; i++ {
		t := s.tasks[i]
		if t.done {
			continue
		}
		alive++
		switch t.state {
		case 1:
			normal = append(normal, t)
		case 2:
			idle = append(idle, t)
		}
	}
	s.mu.Unlock()
	return
}

//go:norace
func (s *Sim) pick(ts []*Task) *Task {
	if len(ts) == 1 {
		return ts[0]
	}
	s.choices++
	if len(ts) > s.maxPark {
		s.maxPark = len(ts)
	}
	switch s.cfg.Policy {
	case PolicySticky:
		if s.last != nil && s.rngSched.Float() < s.cfg.StickyP {
			for _, t := range ts {
				if t == s.last {
					return t
				}
			}
		}
		return ts[s.rngSched.Intn(len(ts))]
	case PolicyPriority:
		for _, at := range s.changeAt {
			if at == s.steps {
				// demote the currently highest-priority task
				best := ts[0]
				for _, t := range ts {
					if t.prio > best.prio {
						best = t
					}
				}
				best.prio = -s.steps
			}
		}
		best := ts[0]
		for _, t := range ts {
			if t.prio > best.prio {
				best = t
			}
		}
		return best
	default:
		return ts[s.rngSched.Intn(len(ts))]
	}
}

//go:norace
func (s *Sim) release(t *Task) {
	s.steps++
	h := s.hash
	h = (h ^ uint64(t.idx+1)) * 0x100000001b3
	for i := 0; i < len(t.site); i++ {
		h = (h ^ uint64(t.site[i])) * 0x100000001b3
	}
	s.hash = h
	if s.cfg.TraceLen > 0 {
		if len(s.trace) >= s.cfg.TraceLen {
			s.trace = s.trace[1:]
		}
		if s.cfg.TraceTime {
			s.trace = append(s.trace, itoa(int(time.Since(s.start)/time.Microsecond))+"us "+t.ID+"@"+t.site)
		} else {
			s.trace = append(s.trace, t.ID+"@"+t.site)
		}
	}
	// simulated CPU time: every scheduling step costs a little, and a task that keeps running without ever
	// blocking while nothing else is runnable (a busy-wait loop) is charged more and more, so that a spin
	// on a deadline terminates in simulated time instead of hanging the simulation
	if t == s.last {
		s.sameRun++
	} else {
		s.sameRun = 0
	}
	cost := time.Microsecond
	// a run that burns tens of thousands of steps while the clock barely moves contains a busy-wait loop
	// (possibly interleaved with periodic tasks): charge more until timers drive the clock again
	s.winSteps++
	if s.winSteps >= 50000 {
		if time.Since(s.winStart) < 100*time.Millisecond {
			s.escalate = true
		}
		s.winSteps, s.winStart = 0, time.Now()
	}
	if s.sameRun > 3000 || s.escalate {
		cost = time.Millisecond
		s.spins++
	}
	s.cpuDebt += cost
	s.last = t
	t.state = 0
	t.wake <- struct{}{}
}

//go:norace
func (s *Sim) nextQuantum() time.Duration {
	lo, hi := s.cfg.MinQuantum, s.cfg.MaxQuantum
	if lo <= 0 {
		lo = 100 * time.Microsecond
	}
	if hi < lo {
		hi = lo
	}
	// log-uniform between lo and hi, with adaptive growth while nothing happens
	q := s.quantum
	if q < lo {
		q = lo
	}
	span := int64(hi / lo)
	if span > 1 {
		// choose exponent
		bits := 0
		for v := span; v > 1; v >>= 1 {
			bits++
		}
		e := s.rngTime.Intn(bits + 1)
		q = lo << uint(e)
		// jitter within the octave
		q += time.Duration(s.rngTime.Intn(int(q)))
		if q > hi {
			q = hi
		}
	}
	return q
}

//go:norace
func (s *Sim) describeAlive() string {
	var b strings.Builder
	s.mu.Lock()
	for i := 0; i < s.ntasks; i++ {
		t := s.tasks[i]
		if t.done {
			continue
		}
		b.WriteString(t.ID + "[state=" + itoa(int(t.state)) + " at=" + t.site + " prev=" + t.lastSite + "] ")
	}
	s.mu.Unlock()
	return b.String()
}

//go:norace
func (s *Sim) leftover() (ids []string, gates []uint64) {
	s.mu.Lock()
	for i := 0; i < s.ntasks; i++ {
		t := s.tasks[i]
		if !t.done {
			ids = append(ids, t.ID+"@"+t.site)
			gates = append(gates, t.gates)
		}
	}
	s.mu.Unlock()
	return
}

//go:norace
func (s *Sim) setDraining() {
	s.mu.Lock()
	s.draining = true
	s.mu.Unlock()
}

// Stop asks the scheduler to end the run as soon as possible (used by the harness after a
// violation has been recorded and the world cannot be shut down cleanly).
//
//go:norace
func Stop() {
	if s := cur.Load(); s != nil {
		s.stopped = true
	}
}

func (s *Sim) loop(root func()) {
	raceDisable()
	rt := s.newTask(nil, "root")
	raceEnable()
	go s.taskMain(rt, root) // visible to the race detector: what the caller prepared happens-before the run
	raceDisable()
	defer raceEnable()
	for {
		synctest.Wait()
		if s.stopped {
			break
		}
		normal, idle, _ := s.collect()
		if s.cpuDebt >= 200*time.Microsecond && len(normal) > 0 {
			d := s.cpuDebt
			s.cpuDebt = 0
			time.Sleep(d)
			continue
		}
		if len(normal) > 0 {
			s.quantum = 0
			s.release(s.pick(normal))
		} else if len(idle) > 0 {
			s.quantum = 0
			s.release(idle[0])
		} else {
			if rt.done {
				break
			}
			if time.Since(s.start) > s.cfg.MaxSimTime {
				s.stuck = true
				s.stuckMsg = "simulated-time backstop reached: " + s.describeAlive()
				break
			}
			// nothing is runnable: let simulated time pass until a timer-woken task parks at a gate (kick)
			// or the idle quantum ends; sometimes stall on purpose so that several timers expire together
			select {
			case <-s.kick:
			default:
			}
			q := s.nextQuantum()
			raceEnable() // the time package consults once-initialised settings: keep that synchronisation visible
			tm := time.NewTimer(q)
			raceDisable()
			select {
			case <-s.kick:
				tm.Stop()
				if s.cfg.StallP > 0 && s.rngTime.Float() < s.cfg.StallP {
					s.stalls++
					d := time.Duration(1+s.rngTime.Intn(int(s.cfg.StallMax/time.Microsecond))) * time.Microsecond
					s.stallTime += d
					time.Sleep(d)
				}
			case <-tm.C:
			}
			continue
		}
		if s.steps > s.cfg.MaxSteps {
			s.stuck = true
			s.stuckMsg = "step backstop reached: " + s.describeAlive()
			break
		}
	}
	// drain: let every remaining goroutine run freely; gates become no-ops
	s.setDraining()
	normal, idle, _ := s.collect()
	for _, t := range append(normal, idle...) {
		t.state = 0
		t.wake <- struct{}{}
	}
	synctest.Wait()
}

func (s *Sim) result() Result {
	raceDisable()
	defer raceEnable()
	r := Result{Steps: s.steps, SimTime: time.Since(s.start), SchedHash: s.hash, Choices: s.choices,
		MaxParked: s.maxPark, Stalls: s.stalls, SpinSteps: s.spins, Stuck: s.stuck, StuckInfo: s.stuckMsg, Trace: append([]string(nil), s.trace...)}
	s.mu.Lock()
	r.Tasks = s.ntasks
	r.Panics = append(r.Panics, s.panics...)
	s.mu.Unlock()
	r.Leftover, _ = s.leftover()
	sort.Strings(r.Leftover)
	return r
}

// Run executes root as task "0" of a fresh simulation inside a synctest bubble and returns
// when the root task has returned (or a backstop fired).
func Run(t *testing.T, cfg Config, root func()) (res Result) {
	if cfg.MaxSteps == 0 {
		cfg.MaxSteps = 2_000_000
	}
	if cfg.MaxSimTime == 0 {
		cfg.MaxSimTime = 10 * time.Minute
	}
	// synctest.Test calls t.FailNow (runtime.Goexit) when the race detector reported something during
	// the bubble; run it on a helper goroutine so that the worker survives and handles the report itself.
	finished := make(chan struct{})
	go func() {
		defer close(finished)
		defer func() {
			cur.Store(nil)
			if r := recover(); r != nil {
				// synctest panics when blocked goroutines remain after the bubble's root returned
				res.BubbleError = fmt.Sprint(r)
			}
		}()
		runBubble(t, cfg, root, &res)
	}()
	<-finished
	return res
}

func runBubble(t *testing.T, cfg Config, root func(), resp *Result) {
	var res Result
	defer func() { *resp = res }()
	synctest.Test(t, func(t *testing.T) {
		s := &Sim{cfg: cfg, start: time.Now(), kick: make(chan struct{}, 1), winStart: time.Now()}
		s.rngSched = NewRng(cfg.Seed, "sched")
		s.rngTime = NewRng(cfg.Seed, "time")
		s.rngMap = NewRng(cfg.Seed, "maporder")
		s.rngSel = NewRng(cfg.Seed, "select")
		for i := 0; i < cfg.ChangePoints; i++ {
			s.changeAt = append(s.changeAt, s.rngSched.Intn(2000))
		}
		cur.Store(s)
		s.loop(root)
		s.exitMu.Lock()
		_ = s.exits
		s.exitMu.Unlock()
		res = s.result()
		if len(res.Leftover) > 0 {
			// are the leftovers still moving (timer loops)? then the bubble would never end
			ids0, g0 := s.leftover()
			time.Sleep(30 * time.Second)
			synctest.Wait()
			ids1, g1 := s.leftover()
			// a task that is still alive after 30 more simulated seconds and has passed gates meanwhile is
			// looping on timers: the bubble would never end
			moving := false
			for i, id := range ids1 {
				for j, id0 := range ids0 {
					if taskOf(id) == taskOf(id0) && g1[i] != g0[j] {
						moving = true
					}
				}
			}
			if moving && cfg.Unclean != nil {
				cfg.Unclean(res)
			}
		}
	})
}

// AliveUnder returns the tasks whose id starts with prefix+"." and that have not finished.
//
//go:norace
func AliveUnder(prefix string) []string {
	s := cur.Load()
	if s == nil {
		return nil
	}
	var out []string
	raceDisable()
	defer raceEnable()
	s.mu.Lock()
	for i := 0; i < s.ntasks; i++ {
		t := s.tasks[i]
		if !t.done && strings.HasPrefix(t.ID, prefix+".") {
			out = append(out, t.ID+"@"+t.site)
		}
	}
	s.mu.Unlock()
	return out
}

// StallTotal returns how much simulated time the scheduler has spent in injected stalls so far.
//
//go:norace
func StallTotal() time.Duration {
	if s := cur.Load(); s != nil {
		return s.stallTime
	}
	return 0
}

func taskOf(idAtSite string) string {
	if i := strings.Index(idAtSite, "@"); i >= 0 {
		return idAtSite[:i]
	}
	return idAtSite
}
