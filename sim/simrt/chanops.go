package simrt

// Harness-side channel helpers: every blocking operation of a harness task is bracketed by
// gates exactly like the rewritten operations of the program under test.

func Send[T any](c chan<- T, v T) {
	Yield("h.send")
	c <- v
	Yield("h.sent")
}

func Recv[T any](c <-chan T) (T, bool) {
	Yield("h.recv")
	v, ok := <-c
	Yield("h.recvd")
	return v, ok
}

// TryRecv never blocks.
func TryRecv[T any](c <-chan T) (v T, ok bool, closed bool) {
	select {
	case x, o := <-c:
		if !o {
			return v, false, true
		}
		return x, true, false
	default:
		return v, false, false
	}
}

func Close[T any](c chan T) {
	Yield("h.close")
	close(c)
}
