package simrt

import (
	"fmt"
	"reflect"
	"sort"
)

// MapKeys returns the keys of m in the iteration order of this run: canonically sorted, then
// (when the run shuffles map orders) permuted by the run's "maporder" PRNG stream. Rewritten
// `range` loops over maps iterate over this slice and skip keys deleted meanwhile, which is
// one of the orders the Go specification allows.
func MapKeys[K comparable, V any](m map[K]V) []K {
	keys := make([]K, 0, len(m))
	for k := range m {
		keys = append(keys, k)
	}
	if len(keys) < 2 {
		return keys
	}
	sortKeys(keys)
	s := cur.Load()
	if s == nil && standaloneMap != nil {
		p := standaloneMap.Perm(len(keys))
		out := make([]K, len(keys))
		for i, j := range p {
			out[i] = keys[j]
		}
		return out
	}
	if s != nil && s.cfg.ShuffleMaps {
		p := s.permMap(len(keys))
		out := make([]K, len(keys))
		for i, j := range p {
			out[i] = keys[j]
		}
		return out
	}
	return keys
}

//go:norace
func (s *Sim) permMap(n int) []int { return s.rngMap.Perm(n) }

func sortKeys[K comparable](keys []K) {
	if len(keys) == 0 {
		return
	}
	switch reflect.ValueOf(keys[0]).Kind() {
	case reflect.Int, reflect.Int8, reflect.Int16, reflect.Int32, reflect.Int64:
		sort.Slice(keys, func(i, j int) bool { return reflect.ValueOf(keys[i]).Int() < reflect.ValueOf(keys[j]).Int() })
	case reflect.Uint, reflect.Uint8, reflect.Uint16, reflect.Uint32, reflect.Uint64, reflect.Uintptr:
		sort.Slice(keys, func(i, j int) bool { return reflect.ValueOf(keys[i]).Uint() < reflect.ValueOf(keys[j]).Uint() })
	case reflect.String:
		sort.Slice(keys, func(i, j int) bool { return reflect.ValueOf(keys[i]).String() < reflect.ValueOf(keys[j]).String() })
	default:
		sort.Slice(keys, func(i, j int) bool { return fmt.Sprintf("%#v", keys[i]) < fmt.Sprintf("%#v", keys[j]) })
	}
}

// KeyZero / ValZero give rewritten map ranges correctly typed per-loop variables.
func KeyZero[K comparable, V any](m map[K]V) (k K) { return }
func ValZero[K comparable, V any](m map[K]V) (v V) { return }

var standaloneMap *Rng

// StandaloneMapOrder makes MapKeys permute map orders with the given PRNG when no simulation run is
// active (worlds without concurrency that still depend on map iteration order). nil switches it off.
func StandaloneMapOrder(r *Rng) { standaloneMap = r }
