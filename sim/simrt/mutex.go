package simrt

import (
	"sync"
	"unsafe"
)

// Mutex replaces sync.Mutex in the instrumented copy. Under simulation a blocked Lock parks
// on a bubble channel (durably blocking for synctest), every Lock is a scheduling point and
// contended hand-off is decided by the scheduler: Unlock wakes all waiters, which re-contend
// through a gate. RaceAcquire/RaceReleaseMerge keep the program-level happens-before edges
// of a real mutex visible to the race detector. Outside a run it is a plain sync.Mutex.
type Mutex struct {
	real    sync.Mutex
	held    bool
	sim     bool
	waiters []chan struct{}
}

//go:norace
func (m *Mutex) tryAcquire() bool {
	if m.held {
		return false
	}
	m.held = true
	m.sim = true
	return true
}

//go:norace
func (m *Mutex) addWaiter() chan struct{} {
	ch := make(chan struct{})
	m.waiters = append(m.waiters, ch)
	return ch
}

//go:norace
func (m *Mutex) releaseSim() []chan struct{} {
	m.held = false
	m.sim = false
	ws := m.waiters
	m.waiters = nil
	return ws
}

//go:norace
func (m *Mutex) heldBySim() bool { return m.sim }

func (m *Mutex) Lock() {
	s := cur.Load()
	if s == nil {
		m.real.Lock()
		return
	}
	for {
		Yield("mutex.Lock")
		raceDisable()
		ok := m.tryAcquire()
		if ok {
			raceEnable()
			break
		}
		ch := m.addWaiter()
		<-ch
		raceEnable()
	}
	raceAcquire(unsafe.Pointer(m))
}

func (m *Mutex) Unlock() {
	if !m.heldBySim() {
		m.real.Unlock()
		return
	}
	raceReleaseMerge(unsafe.Pointer(m))
	raceDisable()
	ws := m.releaseSim()
	for _, ch := range ws {
		close(ch)
	}
	raceEnable()
	Yield("mutex.Unlock")
}

func (m *Mutex) TryLock() bool {
	s := cur.Load()
	if s == nil {
		return m.real.TryLock()
	}
	Yield("mutex.TryLock")
	raceDisable()
	ok := m.tryAcquire()
	raceEnable()
	if ok {
		raceAcquire(unsafe.Pointer(m))
	}
	return ok
}

// RWMutex is a simplification: readers exclude each other as well. That removes schedules
// (two concurrent readers) but adds none, so it cannot cause a false alarm.
type RWMutex struct{ Mutex }

func (m *RWMutex) RLock()               { m.Lock() }
func (m *RWMutex) RUnlock()             { m.Unlock() }
func (m *RWMutex) TryRLock() bool       { return m.TryLock() }
func (m *RWMutex) RLocker() sync.Locker { return &m.Mutex }
