//go:build !race

package simrt

import "unsafe"

// RaceBuild reports whether the binary was built with -race.
const RaceBuild = false

func raceDisable()                      {}
func raceEnable()                       {}
func raceAcquire(p unsafe.Pointer)      {}
func raceReleaseMerge(p unsafe.Pointer) {}
