package worlds

import (
	"encoding/binary"
	"errors"
	"fmt"
	"io"
	"net"
	"sync"
	"time"

	"github.com/gethiox/HIDI/verifsim/simfs"
	"github.com/gethiox/HIDI/verifsim/simrt"
)

// Fake OpenRGB server: speaks the real wire protocol (as implemented by the real openrgb-go client,
// which runs unmodified except for the Dial seam) over net.Pipe connections.

type orgbController struct {
	Type     uint32   `json:"type"`
	Name     string   `json:"name"`
	Location string   `json:"location"`
	LEDs     []string `json:"leds"`
}

type orgbFaults struct {
	RefuseDials  int  `json:"refuse_dials"`   // the first k connection attempts are refused
	DialDelayMs  int  `json:"dial_delay_ms"`  // accepting a connection takes this long
	ReplyDelayUs int  `json:"reply_delay_us"` // answering a count / controller request takes this long
	FrameDelayUs int  `json:"frame_delay_us"` // consuming one UpdateLEDs packet takes this long
	DropAfter    int  `json:"drop_after"`     // close the connection after this many frames (0 = never)
	NoSysfs      bool `json:"no_sysfs"`       // the hidraw entry of the target is missing in sysfs
	// DropAfterReqs: the server hangs up on receiving its k-th count / controller request (the client is then in the
	// middle of its controller search and reads EOF)
	DropAfterReqs int `json:"drop_after_reqs,omitempty"`
}

type orgbFrame struct {
	At     time.Duration
	Colors [][3]byte
}

type orgbServer struct {
	mu          sync.Mutex
	Controllers []orgbController
	Faults      orgbFaults
	dials       int
	reqs        int
	conns       []net.Conn
	Frames      map[int][]orgbFrame // per controller index
	frameCount  map[int]int
	Fired       map[string]int
}

func newOrgbServer(cs []orgbController, f orgbFaults) *orgbServer {
	return &orgbServer{Controllers: cs, Faults: f, Fired: map[string]int{}, Frames: map[int][]orgbFrame{}, frameCount: map[int]int{}}
}

func (s *orgbServer) fired(k string) { s.mu.Lock(); s.Fired[k]++; s.mu.Unlock() }

// dial is installed as the transport of openrgb.Connect for the run.
func (s *orgbServer) dial(network, addr string) (net.Conn, error) {
	s.mu.Lock()
	s.dials++
	n := s.dials
	s.mu.Unlock()
	if n <= s.Faults.RefuseDials {
		s.fired("orgb_dial_refused")
		return nil, errors.New("dial tcp " + addr + ": connect: connection refused")
	}
	if s.Faults.DialDelayMs > 0 {
		s.fired("orgb_dial_delayed")
		simrt.Sleep(time.Duration(s.Faults.DialDelayMs) * time.Millisecond)
	}
	c, srv := net.Pipe()
	s.mu.Lock()
	s.conns = append(s.conns, srv)
	s.mu.Unlock()
	simrt.GoDetached("orgb-server", func() { s.serve(srv) })
	return c, nil
}

func (s *orgbServer) closeAll() {
	s.mu.Lock()
	cs := s.conns
	s.conns = nil
	s.mu.Unlock()
	for _, c := range cs {
		c.Close()
	}
}

func putString(b []byte, str string) []byte {
	var l [2]byte
	binary.LittleEndian.PutUint16(l[:], uint16(len(str)+1))
	b = append(b, l[:]...)
	b = append(b, str...)
	return append(b, 0)
}

func u16(v int) []byte { var b [2]byte; binary.LittleEndian.PutUint16(b[:], uint16(v)); return b[:] }
func u32(v int) []byte { var b [4]byte; binary.LittleEndian.PutUint32(b[:], uint32(v)); return b[:] }

func header(dev, cmd, n int) []byte {
	b := []byte("ORGB")
	b = append(b, u32(dev)...)
	b = append(b, u32(cmd)...)
	return append(b, u32(n)...)
}

func controllerData(c orgbController) []byte {
	var p []byte
	p = append(p, u32(0)...) // data size (ignored by the client)
	p = append(p, u32(int(c.Type))...)
	for _, s := range []string{c.Name, "simulated", "1.0", "SN", c.Location} {
		p = putString(p, s)
	}
	p = append(p, u16(0)...) // mode count
	p = append(p, u32(0)...) // active mode
	p = append(p, u16(0)...) // zone count
	p = append(p, u16(len(c.LEDs))...)
	for _, l := range c.LEDs {
		p = putString(p, l)
		p = append(p, 0, 0, 0, 0)
	}
	p = append(p, u16(len(c.LEDs))...)
	for range c.LEDs {
		p = append(p, 0, 0, 0, 0)
	}
	return p
}

func (s *orgbServer) serve(conn net.Conn) {
	defer conn.Close()
	hdr := make([]byte, 16)
	for {
		simrt.Yield("orgb.read")
		_, err := io.ReadFull(conn, hdr)
		if err != nil {
			simrt.Yield("orgb.closed")
			return
		}
		dev := int(binary.LittleEndian.Uint32(hdr[4:]))
		cmd := int(binary.LittleEndian.Uint32(hdr[8:]))
		n := int(binary.LittleEndian.Uint32(hdr[12:]))
		payload := make([]byte, n)
		if n > 0 {
			if _, err := io.ReadFull(conn, payload); err != nil {
				simrt.Yield("orgb.closed")
				return
			}
		}
		simrt.Yield("orgb.got")
		if cmd == 0 || cmd == 1 {
			s.mu.Lock()
			s.reqs++
			nreq := s.reqs
			s.mu.Unlock()
			if s.Faults.DropAfterReqs > 0 && nreq == s.Faults.DropAfterReqs {
				s.fired("orgb_hangup_during_controller_search")
				return
			}
		}
		switch cmd {
		case 50: // set client name
		case 0: // controller count
			s.replyDelay()
			out := append(header(0, 0, 4), u32(len(s.Controllers))...)
			simrt.Yield("orgb.write")
			conn.Write(out)
			simrt.Yield("orgb.written")
		case 1: // controller data
			s.replyDelay()
			var data []byte
			if dev < len(s.Controllers) {
				data = controllerData(s.Controllers[dev])
			} else {
				data = controllerData(orgbController{})
			}
			out := append(header(dev, 1, len(data)), data...)
			simrt.Yield("orgb.write")
			conn.Write(out)
			simrt.Yield("orgb.written")
		case 1050: // UpdateLEDs
			var cols [][3]byte
			for off := 6; off+3 <= len(payload); off += 4 {
				cols = append(cols, [3]byte{payload[off], payload[off+1], payload[off+2]})
			}
			s.mu.Lock()
			s.Frames[dev] = append(s.Frames[dev], orgbFrame{At: simrt.Now(), Colors: cols})
			if len(s.Frames[dev]) > 4 {
				s.Frames[dev] = s.Frames[dev][len(s.Frames[dev])-4:]
			}
			s.frameCount[dev]++
			fc := s.frameCount[dev]
			s.mu.Unlock()
			if s.Faults.FrameDelayUs > 0 {
				simrt.Sleep(time.Duration(s.Faults.FrameDelayUs) * time.Microsecond)
			}
			if s.Faults.DropAfter > 0 && fc >= s.Faults.DropAfter {
				s.fired("orgb_connection_dropped")
				return
			}
		}
	}
}

func (s *orgbServer) replyDelay() {
	if s.Faults.ReplyDelayUs > 0 {
		s.fired("orgb_reply_delayed")
		simrt.Sleep(time.Duration(s.Faults.ReplyDelayUs) * time.Microsecond)
	}
}

func (s *orgbServer) lastFrameOf(ctrl int) (orgbFrame, int, bool) {
	s.mu.Lock()
	defer s.mu.Unlock()
	fr := s.Frames[ctrl]
	if len(fr) == 0 {
		return orgbFrame{}, s.frameCount[ctrl], false
	}
	return fr[len(fr)-1], s.frameCount[ctrl], true
}

// sysfsFor creates the sysfs entries resolveHidraw walks: /sys/class/hidraw/<hidraw>/device/input/inputN/<event>.
func sysfsFor(fsys *simfs.FS, hidraw string, inputN int, event string) {
	fsys.PutDir(fmt.Sprintf("/sys/class/hidraw/%s/device/input/input%d/%s", hidraw, inputN, event))
	fsys.PutDir(fmt.Sprintf("/sys/class/hidraw/%s/device/input/input%d/capabilities", hidraw, inputN))
}
