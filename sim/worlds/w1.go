package worlds

import (
	"syscall"
	"errors"
	"fmt"
	"net"
	"os"
	"strings"
	"sync"
	"testing"
	"time"

	"github.com/gethiox/HIDI/internal/pkg/input"
	"github.com/gethiox/HIDI/internal/pkg/logger"
	"github.com/gethiox/HIDI/internal/pkg/midi"
	"github.com/gethiox/HIDI/internal/pkg/midi/device"
	"github.com/gethiox/HIDI/internal/pkg/midi/device/config"
	"github.com/gethiox/HIDI/verifsim/model"
	"github.com/gethiox/HIDI/verifsim/simrt"
	"github.com/holoplot/go-evdev"
	openrgb "github.com/realbucksavage/openrgb-go"
)

// dialer is the per-run behaviour of the OpenRGB transport seam.
var dialer func(network, addr string) (net.Conn, error)

func init() {
	openrgb.Dial = func(network, addr string) (net.Conn, error) {
		if dialer == nil {
			return nil, errors.New("connection refused (no simulated OpenRGB server)")
		}
		return dialer(network, addr)
	}
	register("W1", runW1)
}

// collector gathers what the device emits; the plain mutex is never held across a gate.
type collector struct {
	mu   sync.Mutex
	msgs [][]byte
	sigs int
	// every message as handed over (the emitter's own slice) next to the copy taken at that moment: a real
	// consumer reads the bytes later (relay, port queue), so they must not change after the hand-over
	orig, snap [][]byte
}

func (c *collector) add(b []byte) {
	c.mu.Lock()
	cp := append([]byte(nil), b...)
	c.msgs = append(c.msgs, cp)
	if len(c.orig) < 20000 {
		c.orig, c.snap = append(c.orig, b), append(c.snap, cp)
	}
	c.mu.Unlock()
}

// modified reports the first message whose bytes changed after it was handed over.
func (c *collector) modified() (int, []byte, []byte) {
	c.mu.Lock()
	defer c.mu.Unlock()
	for i := range c.orig {
		if string(c.orig[i]) != string(c.snap[i]) {
			return i, c.snap[i], c.orig[i]
		}
	}
	return -1, nil, nil
}
func (c *collector) sig() { c.mu.Lock(); c.sigs++; c.mu.Unlock() }
func (c *collector) take() ([][]byte, int) {
	c.mu.Lock()
	m, s := c.msgs, c.sigs
	c.msgs, c.sigs = nil, 0
	c.mu.Unlock()
	return m, s
}

// simInputDevice builds the input.Device a discovery run would have produced for the description.
func simInputDevice(d *model.Desc, idx int) (input.Device, []input.Handler) {
	dev := input.Device{ID: input.InputID{Bus: 3, Vendor: 0x1234, Product: uint16(0x10 + idx), Version: 1}, Name: fmt.Sprintf("Sim Device %d", idx),
		Phys: fmt.Sprintf("usb-sim-%d", idx), DeviceType: input.KeyboardDevice, AbsInfos: map[string]map[evdev.EvCode]evdev.AbsInfo{}}
	for i, sub := range d.Handlers {
		ev := fmt.Sprintf("event%d", idx*8+i)
		di := input.NewDeviceInfoForSim(strings.TrimSpace(dev.Name+" "+sub), dev.Phys+fmt.Sprintf("/input%d", i), ev, dev.ID, nil)
		dev.Handlers = append(dev.Handlers, input.Handler{Name: sub, DeviceInfo: di})
		dev.AbsInfos[ev] = map[evdev.EvCode]evdev.AbsInfo{}
	}
	for _, m := range d.Mappings {
		for _, sa := range m.Analog {
			for hi, sub := range d.Handlers {
				if sub != sa.Sub {
					continue
				}
				ev := fmt.Sprintf("event%d", idx*8+hi)
				for _, a := range sa.Axes {
					if a.NoInfo {
						continue // the zero value is what the device then reads
					}
					dev.AbsInfos[ev][evdev.EvCode(a.Code)] = evdev.AbsInfo{Minimum: a.Min, Maximum: a.Max}
				}
			}
		}
	}
	return dev, dev.Handlers
}

func toInputEvent(hs []input.Handler, e model.Event) *input.InputEvent {
	typ := evdev.EV_KEY
	if e.Kind == "abs" {
		typ = evdev.EV_ABS
	}
	h := hs[0]
	if e.Handler < len(hs) {
		h = hs[e.Handler]
	}
	return &input.InputEvent{Source: h, Event: evdev.InputEvent{Type: evdev.EvType(typ), Code: evdev.EvCode(e.Code), Value: e.Value}}
}

type w1Case struct {
	d        *model.Desc
	script   []model.Event
	scenario string // "" or the name of a known-defect scenario
	unplugs  []int  // prefixes after which to unplug (-1 = after the whole script)
	capIn    int
	capOut   int
	noLogs   bool
	state    bool // compare Device.State() after every step
	monitor  bool // only the byte-level monitor judges the run (configurations outside the reference model)
	burst    bool // key-only script fed in bursts against a slow consumer; whole-stream comparison at sync points
	preCC    map[[2]int]int // controller values the receiver holds before the device is connected
	sigFull  map[int]bool   // script steps at which the signal channel already holds an unread signal
}

type w1Exec struct {
	vio      *Vio
	infra    string
	res      simrt.Result
	msgs     int
	probes   map[string]int
	states   []string
	unclean  bool
	executed int
}

// execW1 runs one script against a fresh device in a fresh bubble, in lock-step with the model.
func execW1(t *testing.T, seed uint64, c *w1Case, cfg config.Config, script []model.Event, prop string) w1Exec {
	var ex w1Exec
	ex.probes = map[string]int{}
	srng := simrt.NewRng(seed, "schedcfg")
	scfg, _ := schedConfig(seed, srng)
	inDev, handlers := simInputDevice(c.d, 0)
	ex.res = simrt.Run(t, scfg, func() {
		logger.Messages = make(chan []byte, 1024)
		stop := make(chan struct{})
		go func() {
			for {
				select {
				case <-logger.Messages:
				case <-stop:
					return
				}
			}
		}()
		defer close(stop)
		dialer = nil
		in := make(chan *input.InputEvent, c.capIn)
		out := make(chan midi.Event, c.capOut)
		midiIn := make(chan midi.Event, 8)
		sigs := make(chan os.Signal, 1)
		dev := device.NewDevice(inDev, config.DeviceConfig{ConfigFile: "sim.toml", ConfigType: "user", Config: cfg}, out, midiIn, c.noLogs, 6742, sigs)
		col := &collector{}
		done := false
		var doneMu sync.Mutex
		simrt.Go("device", func() {
			dev.ProcessEvents(in)
			doneMu.Lock()
			done = true
			doneMu.Unlock()
		})
		brng := simrt.NewRng(seed, "burst")
		slowUs := 0
		if c.burst {
			slowUs = []int{0, 20, 200, 2000}[brng.Intn(4)]
		}
		simrt.Go("collector", func() {
			for {
				ev, ok := simrt.Recv(out)
				if !ok {
					return
				}
				col.add(ev)
				if slowUs > 0 {
					simrt.Sleep(time.Duration(slowUs) * time.Microsecond)
				}
			}
		})
		sigStop := make(chan struct{})
		var sigMu sync.Mutex
		sigPaused, sigStopped := false, false
		if len(c.sigFull) == 0 {
			simrt.Go("sigreader", func() {
				for {
					simrt.Yield("h.sig")
					select {
					case <-sigs:
						col.sig()
					case <-sigStop:
						return
					}
					simrt.Yield("h.sig+")
				}
			})
		} else {
			// a reader that can be told to look away for a moment
			simrt.Go("sigreader", func() {
				for {
					sigMu.Lock()
					p, st := sigPaused, sigStopped
					sigMu.Unlock()
					if st {
						return
					}
					if !p {
						if _, ok, _ := simrt.TryRecv(sigs); ok {
							col.sig()
							continue
						}
					}
					simrt.Sleep(500 * time.Microsecond)
				}
			})
			defer func() { sigMu.Lock(); sigStopped = true; sigMu.Unlock() }()
		}
		m := model.NewDev(c.d)
		for k, v := range c.preCC {
			m.Recv.CC[k] = v
		}
		if prop == "C01" {
			m.Focus = "C01"
		}
		fail := func(step int, v *model.Violation) {
			ex.vio = &Vio{Props: v.Props, Clause: v.Clause, Detail: v.Detail, Step: step, Sig: c.scenario}
			notePending(ex.vio, &Replay{World: "W1", Prop: prop, Seed: seed, Script: script, Override: true})
		}
		decode := func(raw [][]byte, step int) []model.Msg {
			var ms []model.Msg
			for _, b := range raw {
				mm, ok := model.Decode(b)
				if !ok && ex.vio == nil {
					fail(step, &model.Violation{Props: []string{"C05"}, Clause: "malformed_midi", Detail: fmt.Sprintf("step %d emitted bytes % x (not a complete Note/CC/PitchBend message with 7-bit data)", step, b)})
				}
				ms = append(ms, mm)
			}
			ex.msgs += len(ms)
			return ms
		}
		simrt.WaitIdle()
		if c.burst {
			var all []model.Msg
			i := 0
			for i < len(script) && ex.vio == nil {
				n := brng.Range(1, 12)
				for j := 0; j < n && i < len(script); j, i = j+1, i+1 {
					if script[i].Kind != "key" {
						continue
					}
					simrt.Send(in, toInputEvent(handlers, script[i]))
					m.Predict(script[i])
				}
				// let everything drain (the consumer may be slow)
				for k := 0; k < 2000; k++ {
					simrt.WaitIdle()
					raw, _ := col.take()
					ms := decode(raw, i)
					for _, g := range ms {
						m.Recv.Apply(g)
					}
					all = append(all, ms...)
					if len(all) >= len(m.Predicted) || slowUs == 0 {
						break
					}
					simrt.Sleep(time.Duration(slowUs*4+50) * time.Microsecond)
				}
				if ex.vio != nil {
					break
				}
				if at, why := model.CompareStream(m.Predicted, all); at >= 0 {
					props := []string{prop}
					if m.PanicSeen && prop != "C13" {
						props = append(props, "C13")
					}
					fail(i, &model.Violation{Props: props, Clause: "stream_mismatch", Detail: fmt.Sprintf("events fed in bursts against a consumer taking %dus per message: %s", slowUs, why)})
				}
			}
			script = nil // fed
		}
		for i, ev := range script {
			foreignSig := 0
			if c.sigFull[i] {
				sigMu.Lock()
				sigPaused = true
				sigMu.Unlock()
				simrt.Sleep(time.Millisecond)
				simrt.WaitIdle()
				select {
				case sigs <- syscall.SIGTERM:
					foreignSig = 1
				default:
				}
			}
			switch ev.Kind {
			case "key", "abs":
				simrt.Send(in, toInputEvent(handlers, ev))
			case "midiin":
				simrt.Send(midiIn, midi.Event(ev.Bytes))
			case "wait":
				simrt.Sleep(time.Duration(ev.Ms) * time.Millisecond)
			}
			simrt.WaitIdle()
			if c.sigFull[i] {
				// the device may be waiting for room in the channel: let the reader look again
				sigMu.Lock()
				sigPaused = false
				sigMu.Unlock()
			}
			if len(c.sigFull) > 0 {
				// the reader of these runs polls: give it two of its periods
				simrt.Sleep(3 * time.Millisecond)
				simrt.WaitIdle()
			}
			raw, ns := col.take()
			ns -= foreignSig
			ms := decode(raw, i)
			if ex.vio != nil && (prop == "C05" || c.monitor) {
				break
			}
			if c.monitor {
				continue
			}
			// a malformed message is a C05 observation; the model still judges the step for its own property
			malformed := ex.vio
			if v := m.Step(ev, ms, ns); v != nil {
				if malformed != nil {
					v.Props = append(v.Props, "C05")
				}
				fail(i, v)
				break
			}
			if malformed != nil {
				break
			}
			if c.state {
				st := dev.State()
				if int(st.Octave) != m.Oct || int(st.Semitone) != m.Semi || int(st.Channel)+1 != m.Ch || st.Mapping != c.d.Mappings[m.Map].Name {
					fail(i, &model.Violation{Props: []string{"C04"}, Clause: "state_mismatch",
						Detail: fmt.Sprintf("after %s: device state octave=%d semitone=%d channel=%d mapping=%s, expected %s", ev, st.Octave, st.Semitone, int(st.Channel)+1, st.Mapping, m.StateString())})
					break
				}
			}
			if len(ex.states) < 64 {
				ex.states = append(ex.states, fmt.Sprintf("%s|o%d s%d c%d m%d h%d", c.d.Mode, m.Oct, m.Semi, m.Ch, m.Map, len(m.Holders)))
			}
		}
		// unplug: the event stream ends
		simrt.Close(in)
		deadline := simrt.Now() + 10*time.Second
		for {
			simrt.WaitIdle()
			doneMu.Lock()
			d := done
			doneMu.Unlock()
			if d || simrt.Now() > deadline {
				break
			}
			simrt.Sleep(20 * time.Millisecond)
		}
		raw, _ := col.take()
		ms := decode(raw, len(script))
		doneMu.Lock()
		d := done
		doneMu.Unlock()
		if ex.vio == nil && !(c.monitor && d) {
			if !d {
				fail(len(script), &model.Violation{Props: []string{"C01", "C16"}, Clause: "processing_does_not_end", Detail: "ProcessEvents did not return within 10 simulated seconds after the event stream ended"})
			} else if v := m.Unplug(ms); v != nil {
				fail(len(script), v)
			}
		}
		if i, was, is := col.modified(); i >= 0 && ex.vio == nil {
			props := []string{prop}
			if m.PanicSeen && prop != "C13" {
				props = append(props, "C13")
			}
			fail(len(script), &model.Violation{Props: props, Clause: "message_modified_after_emission",
				Detail: fmt.Sprintf("message %d of the run was handed over as % x; the same slice later reads % x (a consumer that is a few messages behind, like the port queue, receives the changed bytes)", i, was, is)})
		}
		addCounts(ex.probes, m.Probes)
		close(sigStop)
		if d {
			simrt.Close(out)
		} else {
			simrt.Stop()
		}
	})
	ex.executed = 1
	for _, p := range ex.res.Panics {
		if strings.Contains(p.Value, "SIMGEN-UNSUPPORTED") {
			ex.infra = p.Value
		} else if ex.vio == nil {
			ex.infra = "panic in task " + p.Task + ": " + p.Value + "\n" + p.Stack
		}
	}
	if ex.res.Stuck && ex.vio == nil {
		if strings.Contains(ex.res.StuckInfo, "at=mutex.Lock") {
			// a task of the device waits for one of the device's own mutexes and nothing in the run can move any more:
			// the device has locked itself up (the harness holds none of these mutexes)
			ex.vio = &Vio{Props: []string{prop}, Clause: "device_locks_up", Sig: c.scenario,
				Detail: "the run cannot continue, a task of the device waits for a mutex for ever: " + ex.res.StuckInfo}
		} else {
			ex.infra = "run stuck: " + ex.res.StuckInfo
		}
	}
	return ex
}

func runW1(t *testing.T, job *Job, seed uint64, rp *Replay) RunOut {
	ro := RunOut{Faults: map[string]int{}, Probes: map[string]int{}}
	r := simrt.NewRng(seed, "workload")
	c := genW1(job.Prop, job.Tier, r)
	if rp != nil && rp.Override {
		if quantifierOK(c.d, c.script) && !quantifierOK(c.d, rp.Script) {
			// a shrunk script that left the quantifier of the action statements: not a candidate
			ro.Probes["minimiser_candidate_outside_quantifier"]++
			return ro
		}
		c.script = rp.Script
		c.unplugs = []int{-1}
	}
	toml := c.d.TOML()
	cfg, err := config.ParseData([]byte(toml))
	if err != nil {
		if c.scenario == "corner" {
			ro.Skipped = true
			return ro
		}
		ro.Infra = fmt.Sprintf("generated configuration rejected by the parser: %v\n%s", err, toml)
		return ro
	}
	_, ro.Policy = schedConfig(seed, simrt.NewRng(seed, "schedcfg"))
	for _, k := range c.unplugs {
		script := c.script
		if k >= 0 && k < len(script) {
			script = script[:k]
			ro.Faults["unplug_mid_history"]++
		} else {
			ro.Faults["unplug_at_end"]++
		}
		ex := execW1(t, seed, c, cfg, script, job.Prop)
		ro.Steps += ex.res.Steps
		ro.SimTime += ex.res.SimTime
		ro.Hash = ro.Hash*1099511628211 ^ ex.res.SchedHash
		ro.Choices += ex.res.Choices
		ro.Messages += ex.msgs
		addCounts(ro.Probes, ex.probes)
		ro.States = append(ro.States, ex.states...)
		if ex.infra != "" {
			ro.Infra = ex.infra
			return ro
		}
		if ex.unclean {
			ro.Unclean = true
		}
		if ex.vio != nil {
			ro.Vio = ex.vio
			ro.Replay = &Replay{World: "W1", Prop: job.Prop, Seed: seed, Tier: job.Tier, Script: script, Override: true, Trace: ex.res.Trace, Config: toml}
			break
		}
	}
	ro.Nontriv = len(c.script) >= 2
	ro.Sample = fmt.Sprintf("seed=%d mode=%s maps=%d scenario=%q unplugs=%v script=%v", seed, c.d.Mode, len(c.d.Mappings), c.scenario, c.unplugs, briefScript(c.script, 14))
	return ro
}

func briefScript(s []model.Event, n int) string {
	var p []string
	for i, e := range s {
		if i >= n {
			p = append(p, fmt.Sprintf("...(%d steps)", len(s)))
			break
		}
		p = append(p, e.String())
	}
	return strings.Join(p, " ")
}
