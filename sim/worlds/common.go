// Package worlds contains the simulated worlds (harnesses) of the HIDI verification and the
// worker entry point. A worker process executes many seeded runs of one world for one
// property, classifies violations against the known-findings list, minimises the first
// unknown one and writes a JSON report for the driver (bin/check).
package worlds

import (
	"runtime"
	"runtime/debug"
	"sync/atomic"

	"encoding/json"
	"fmt"
	"github.com/gethiox/HIDI/internal/pkg/logger"
	"os"
	"sort"
	"strings"
	"testing"
	"time"

	"github.com/gethiox/HIDI/verifsim/model"
	"github.com/gethiox/HIDI/verifsim/simrt"
)

type Known struct {
	Status    string `json:"status"`
	Property  string `json:"property"`
	Clause    string `json:"clause"`
	Signature string `json:"signature"`
	What      string `json:"what"`
}

type Job struct {
	World    string  `json:"world"`
	Prop     string  `json:"prop"`
	Tier     string  `json:"tier"`
	SeedBase uint64  `json:"seed_base"`
	Stride   int     `json:"stride"`
	Offset   int     `json:"offset"`
	MaxRuns  int     `json:"max_runs"`
	BudgetS  float64 `json:"budget_s"`
	Known    []Known `json:"known"`
	Out      string  `json:"out"`
	// Replay, when set, is the content of a replay file: exactly one run is executed
	Replay *Replay `json:"replay"`
	// Resume: index of the first run to execute (after an unclean exit)
	StartIndex int `json:"start_index"`
	// Determinism self-test: print a digest of every run to this file
	DigestOut string `json:"digest_out"`
}

// Replay identifies one run completely: everything else is derived from the seed.
type Replay struct {
	World    string          `json:"world"`
	Prop     string          `json:"property"`
	Seed     uint64          `json:"seed"`
	Tier     string          `json:"tier"`
	Script   []model.Event   `json:"script,omitempty"` // overrides the generated script when Override is set
	Ops      json.RawMessage `json:"ops,omitempty"`    // world-specific overrides
	Override bool            `json:"override"`
	Clause   string          `json:"clause"`
	Sig      string          `json:"signature"`
	Detail   string          `json:"detail"`
	Hash     string          `json:"sched_hash"`
	Trace    []string        `json:"trace,omitempty"`
	Config   string          `json:"config,omitempty"` // informational: the generated configuration / world parameters
	// History, when set: the violation depends on what earlier runs left behind in the worker process (package-level
	// state of the program under test); the replay re-executes the runs StartIndex..Index of that worker in order
	// and judges the last one.
	History *History `json:"history,omitempty"`
}

type History struct {
	SeedBase   uint64 `json:"seed_base"`
	Stride     int    `json:"stride"`
	Offset     int    `json:"offset"`
	StartIndex int    `json:"start_index"`
	Index      int    `json:"index"`
}

// Vio is a violation found by a run.
type Vio struct {
	Props  []string `json:"props"`
	Clause string   `json:"clause"`
	Sig    string   `json:"signature"`
	Detail string   `json:"detail"`
	Step   int      `json:"step"`
}

func (v *Vio) has(p string) bool {
	for _, x := range v.Props {
		if x == p {
			return true
		}
	}
	return false
}

// RunOut is what one simulated run reports.
type RunOut struct {
	Vio      *Vio
	Infra    string // harness / infrastructure problem (exit 2)
	Steps    int
	SimTime  time.Duration
	Hash     uint64
	Choices  int
	Faults   map[string]int
	Probes   map[string]int
	Sample   string
	Unclean  bool
	States   []string // abstract states visited (for the distinct-states measure)
	Replay   *Replay  // how to reproduce this run
	Policy   string
	Skipped  bool // the generated case was not applicable (e.g. the parser rejected a corner config)
	Nontriv  bool
	Messages int
}

type VioRec struct {
	Seed   uint64 `json:"seed"`
	Vio    Vio    `json:"vio"`
	Replay string `json:"replay"`
}

type Output struct {
	Runs       int               `json:"runs"`
	Skipped    int               `json:"skipped"`
	Violations []VioRec          `json:"violations"`
	KnownHits  map[string]int    `json:"known_hits"`
	Foreign    map[string]int    `json:"foreign"`
	Infra      []string          `json:"infra"`
	SimSeconds float64           `json:"sim_seconds"`
	Steps      int               `json:"steps"`
	Messages   int               `json:"messages"`
	Faults     map[string]int    `json:"faults"`
	Probes     map[string]int    `json:"probes"`
	Policies   map[string]int    `json:"policies"`
	Hashes     []string          `json:"hashes"`
	States     []string          `json:"states"`
	Samples    []string          `json:"samples"`
	NextIndex  int               `json:"next_index"`
	Done       bool              `json:"done"`
	WallS      float64           `json:"wall_s"`
	Digests    map[string]string `json:"-"`
}

// state of the worker, for exits from inside a run that cannot be completed (a goroutine of the program
// under test spins forever or is blocked with timers running: the bubble would never end)
var atomicRunCounter atomic.Uint64

var (
	curJob  *Job
	curOut  *Output
	curSeed uint64
	curIdx  int
)

// HardFail reports a violation from inside a run and ends the process (the driver restarts the worker for the
// remaining seeds when the violation is not the one it is looking for).
func HardFail(v *Vio, rp *Replay) {
	if curJob == nil || curOut == nil {
		os.Exit(2)
	}
	curOut.NextIndex = curIdx + 1
	curOut.Runs++
	switch {
	case !v.has(curJob.Prop):
		curOut.Foreign[strings.Join(v.Props, "+")+":"+v.Clause]++
		flush(curJob, curOut)
		os.Exit(3)
	case curJob.known(v) != nil:
		k := curJob.known(v)
		curOut.KnownHits[k.Property+"|"+k.Clause+"|"+k.Signature]++
		flush(curJob, curOut)
		os.Exit(3)
	}
	rec := VioRec{Seed: curSeed, Vio: *v}
	if rp != nil {
		rp.Clause, rp.Sig, rp.Detail = v.Clause, v.Sig, v.Detail
		b, _ := json.MarshalIndent(rp, "", " ")
		path := fmt.Sprintf("%s.replay-%s-%d.json", curJob.Out, curJob.Prop, curSeed)
		os.WriteFile(path, b, 0o644)
		rec.Replay = path
	}
	curOut.Violations = append(curOut.Violations, rec)
	flush(curJob, curOut)
	os.Exit(1)
}

// pending is the violation a world has already recorded for the current run (set with notePending); if the run
// cannot be completed it is reported from the unclean-exit path.
var (
	pendingVio *Vio
	pendingRp  *Replay
)

func notePending(v *Vio, rp *Replay) {
	if pendingVio == nil {
		pendingVio, pendingRp = v, rp
	}
}

// hardUnclean ends the process when a finished run leaves goroutines behind that keep running.
func hardUnclean(simrt.Result) {
	if curJob == nil || curOut == nil {
		os.Exit(2)
	}
	if pendingVio != nil {
		HardFail(pendingVio, pendingRp)
	}
	curOut.NextIndex = curIdx + 1
	curOut.Probes["unclean_exits"]++
	flush(curJob, curOut)
	os.Exit(3)
}

type worldFn func(t *testing.T, job *Job, seed uint64, rp *Replay) RunOut

var worldTable = map[string]worldFn{}

func register(name string, fn worldFn) { worldTable[name] = fn }

// WorldFn / RegisterWorld let harnesses living in other packages (cmd/hidi's package main) plug in.
type WorldFn = worldFn

func RegisterWorld(name string, fn WorldFn) { worldTable[name] = fn }

// AddCounts is addCounts for other packages.
func AddCounts(dst, src map[string]int) { addCounts(dst, src) }

func addCounts(dst, src map[string]int) {
	for k, v := range src {
		dst[k] += v
	}
}

func (j *Job) known(v *Vio) *Known {
	for i := range j.Known {
		k := &j.Known[i]
		if k.Status != "known" {
			continue
		}
		if k.Clause != "*" {
			match := false
			for _, c := range strings.Split(k.Clause, "|") {
				if c == v.Clause {
					match = true
				}
			}
			if !match {
				continue
			}
		}
		if !v.has(k.Property) {
			continue
		}
		if k.Signature != "" && k.Signature != v.Sig {
			continue
		}
		return k
	}
	return nil
}

func flush(job *Job, out *Output) {
	b, _ := json.Marshal(out)
	tmp := job.Out + ".tmp"
	os.WriteFile(tmp, b, 0o644)
	os.Rename(tmp, job.Out)
}

// WorkerMain runs the job described by $VERIF_JOB.
func WorkerMain(t *testing.T) {
	jp := os.Getenv("VERIF_JOB")
	if jp == "" {
		t.Skip("VERIF_JOB not set")
	}
	data, err := os.ReadFile(jp)
	if err != nil {
		fmt.Fprintln(os.Stderr, "worker: cannot read job:", err)
		os.Exit(2)
	}
	var job Job
	if err := json.Unmarshal(data, &job); err != nil {
		fmt.Fprintln(os.Stderr, "worker: bad job:", err)
		os.Exit(2)
	}
	// worlds that run outside a bubble log through the package-level channel: keep it drained
	go func(c chan []byte) {
		for range c {
		}
	}(logger.Messages)
	// HIDI needs no deep stacks: let unbounded recursion die quickly (and cheaply) instead of growing to 1 GB
	debug.SetMaxStack(96 << 20)
	// wall-clock watchdog per run: a run that does not finish is either a busy loop without any scheduling
	// point in the program under test (reported as a hang of the property under check when a running
	// goroutine is inside HIDI) or a harness problem (exit 2)
	go func() {
		last, since := uint64(0), time.Now()
		for {
			time.Sleep(2 * time.Second)
			cur := atomicRunCounter.Load()
			if cur != last {
				last, since = cur, time.Now()
				continue
			}
			if time.Since(since) < 150*time.Second || curJob == nil {
				continue
			}
			buf := make([]byte, 1<<20)
			buf = buf[:runtime.Stack(buf, true)]
			where := ""
			for _, g := range strings.Split(string(buf), "\n\n") {
				head := g
				if i := strings.Index(g, "\n"); i >= 0 {
					head = g[:i]
				}
				if (strings.Contains(head, "[running") || strings.Contains(head, "[runnable")) && strings.Contains(g, "gethiox/HIDI/internal") {
					for _, l := range strings.Split(g, "\n") {
						if strings.Contains(l, "gethiox/HIDI/internal") || strings.Contains(l, "gethiox/HIDI/cmd") {
							where = strings.TrimSpace(l)
							break
						}
					}
				}
			}
			if where == "" {
				fmt.Fprintf(os.Stderr, "worker watchdog: run of seed %d does not finish and no running goroutine is inside HIDI\n%s\n", curSeed, shorten(string(buf), 6000))
				os.Exit(2)
			}
			HardFail(&Vio{Props: []string{curJob.Prop}, Clause: "run_hangs", Detail: "the run did not finish within 150 s of wall-clock time; a goroutine is busy in " + where},
				&Replay{World: curJob.World, Prop: curJob.Prop, Seed: curSeed, Tier: curJob.Tier})
		}
	}()
	fn := worldTable[job.World]
	if fn == nil {
		fmt.Fprintln(os.Stderr, "worker: unknown world", job.World)
		os.Exit(2)
	}
	out := &Output{KnownHits: map[string]int{}, Foreign: map[string]int{}, Faults: map[string]int{}, Probes: map[string]int{},
		Policies: map[string]int{}}
	start := time.Now()
	hashes := map[uint64]bool{}
	states := map[string]bool{}
	finish := func(done bool, code int) {
		out.Done = done
		out.WallS = time.Since(start).Seconds()
		for h := range hashes {
			out.Hashes = append(out.Hashes, fmt.Sprintf("%016x", h))
		}
		sort.Strings(out.Hashes)
		for s := range states {
			out.States = append(out.States, s)
		}
		sort.Strings(out.States)
		flush(&job, out)
		if code < 0 {
			code = 0
		}
		os.Exit(code)
	}
	var digest *os.File
	if job.DigestOut != "" {
		digest, _ = os.Create(job.DigestOut)
		defer digest.Close()
	}
	if job.Replay != nil && job.Replay.History != nil {
		h := job.Replay.History
		for idx := h.StartIndex; idx <= h.Index; idx++ {
			seed := h.SeedBase + uint64(idx*h.Stride+h.Offset)
			curJob, curOut, curSeed, curIdx = &job, out, seed, idx
			pendingVio, pendingRp = nil, nil
			atomicRunCounter.Add(1)
			ro := withRaceCheck(fn, out)(t, &job, seed, nil)
			out.Runs++
			if ro.Infra != "" {
				out.Infra = append(out.Infra, ro.Infra)
				break
			}
			if idx == h.Index && ro.Vio != nil {
				out.Violations = append(out.Violations, VioRec{Seed: seed, Vio: *ro.Vio})
			}
		}
		finish(true, -1)
		return
	}
	if job.Replay != nil {
		curJob, curOut, curSeed, curIdx = &job, out, job.Replay.Seed, 0
		ro := withRaceCheck(fn, out)(t, &job, job.Replay.Seed, job.Replay)
		out.Runs = 1
		if ro.Infra != "" {
			out.Infra = append(out.Infra, ro.Infra)
		}
		if ro.Vio != nil {
			out.Violations = append(out.Violations, VioRec{Seed: job.Replay.Seed, Vio: *ro.Vio})
		}
		out.Samples = append(out.Samples, fmt.Sprintf("hash=%016x", ro.Hash))
		if tf := os.Getenv("VERIF_TRACE"); tf != "" && ro.Replay != nil {
			os.WriteFile(tf, []byte(strings.Join(ro.Replay.Trace, "\n")), 0o644)
		}
		finish(true, -1)
		return
	}
	if job.Stride <= 0 {
		job.Stride = 1
	}
	idx := job.StartIndex
	for ; job.MaxRuns <= 0 || idx < job.MaxRuns; idx++ {
		if job.BudgetS > 0 && time.Since(start).Seconds() > job.BudgetS {
			break
		}
		seed := job.SeedBase + uint64(idx*job.Stride+job.Offset)
		// if the process dies inside this run (fatal error, panic on a goroutine outside the simulation), the
		// driver finds the seed here
		os.WriteFile(job.Out+".current", []byte(fmt.Sprintf("%d %d", seed, idx)), 0o644)
		curJob, curOut, curSeed, curIdx = &job, out, seed, idx
		pendingVio, pendingRp = nil, nil
		atomicRunCounter.Add(1)
		ro := withRaceCheck(fn, out)(t, &job, seed, nil)
		out.NextIndex = idx + 1
		if digest != nil {
			v := ""
			if ro.Vio != nil {
				v = ro.Vio.Clause + "|" + ro.Vio.Sig
			}
			fmt.Fprintf(digest, "%d %016x steps=%d sim=%d msgs=%d vio=%s infra=%s\n", seed, ro.Hash, ro.Steps, ro.SimTime, ro.Messages, v, ro.Infra)
		}
		if ro.Skipped {
			out.Skipped++
			continue
		}
		out.Runs++
		out.Steps += ro.Steps
		out.Messages += ro.Messages
		out.SimSeconds += ro.SimTime.Seconds()
		addCounts(out.Faults, ro.Faults)
		addCounts(out.Probes, ro.Probes)
		out.Policies[ro.Policy]++
		if ro.Nontriv && len(hashes) < 200000 {
			hashes[ro.Hash] = true
		}
		for _, s := range ro.States {
			if len(states) < 200000 {
				states[s] = true
			}
		}
		if ro.Sample != "" && len(out.Samples) < 3 {
			out.Samples = append(out.Samples, ro.Sample)
		}
		if ro.Infra != "" {
			out.Infra = append(out.Infra, fmt.Sprintf("seed %d: %s", seed, ro.Infra))
			finish(false, 2)
		}
		if ro.Vio != nil {
			v := ro.Vio
			switch {
			case !v.has(job.Prop):
				out.Foreign[strings.Join(v.Props, "+")+":"+v.Clause]++
			case job.known(v) != nil:
				k := job.known(v)
				out.KnownHits[k.Property+"|"+k.Clause+"|"+k.Signature]++
			default:
				rec := VioRec{Seed: seed, Vio: *v}
				if ro.Replay != nil {
					var rp *Replay
					if sh := shrinkers[job.World]; sh != nil && len(ro.Replay.Ops) > 0 && len(ro.Replay.Script) == 0 {
						rp = minimiseOps(t, withRaceCheck(fn, out), &job, seed, ro, sh)
					} else {
						rp = minimise(t, withRaceCheck(fn, out), &job, seed, ro)
					}
					rp.Clause, rp.Sig, rp.Detail = rp.Clause, rp.Sig, rp.Detail
					b, _ := json.MarshalIndent(rp, "", " ")
					path := fmt.Sprintf("%s.replay-%s-%d.json", job.Out, job.Prop, seed)
					os.WriteFile(path, b, 0o644)
					rec.Replay = path
					rec.Vio.Detail = rp.Detail
				}
				out.Violations = append(out.Violations, rec)
				finish(false, 1)
			}
		}
		if ro.Unclean {
			out.NextIndex = idx + 1
			finish(false, 3)
		}
	}
	finish(true, -1)
}

// minimise shrinks the script of a failing run (delta debugging over script steps, keeping key
// press/release alternation well-formed) while the same clause keeps failing, then re-records the
// replay from an actual run of the minimised case.
func minimise(t *testing.T, fn worldFn, job *Job, seed uint64, ro RunOut) *Replay {
	best := *ro.Replay
	best.Clause, best.Sig, best.Detail = ro.Vio.Clause, ro.Vio.Sig, ro.Vio.Detail
	best.Hash = fmt.Sprintf("%016x", ro.Hash)
	if len(best.Script) == 0 {
		return &best
	}
	deadline := time.Now().Add(60 * time.Second)
	tries := 0
	fails := func(script []model.Event) (bool, RunOut) {
		tries++
		rp := best
		rp.Script = script
		rp.Override = true
		r := fn(t, job, seed, &rp)
		return r.Vio != nil && r.Vio.Clause == best.Clause && r.Infra == "" && !r.Unclean, r
	}
	script := append([]model.Event(nil), best.Script...)
	n := 2
	for len(script) >= 2 && tries < 2000 && time.Now().Before(deadline) {
		chunk := (len(script) + n - 1) / n
		reduced := false
		for i := 0; i < len(script); i += chunk {
			end := i + chunk
			if end > len(script) {
				end = len(script)
			}
			cand := append(append([]model.Event(nil), script[:i]...), script[end:]...)
			cand = normaliseScript(cand)
			if len(cand) >= len(script) {
				continue
			}
			if ok, r := fails(cand); ok {
				script = cand
				best.Detail = r.Vio.Detail
				best.Hash = fmt.Sprintf("%016x", r.Hash)
				if n > 2 {
					n--
				}
				reduced = true
				break
			}
			if tries >= 2000 || time.Now().After(deadline) {
				break
			}
		}
		if !reduced {
			if chunk == 1 {
				break
			}
			n *= 2
			if n > len(script) {
				n = len(script)
			}
		}
	}
	best.Script = script
	best.Override = true
	// final confirmation run records the definitive hash and detail
	if ok, r := fails(script); ok {
		best.Detail = r.Vio.Detail
		best.Hash = fmt.Sprintf("%016x", r.Hash)
		best.Sig = r.Vio.Sig
	}
	return &best
}

// normaliseScript keeps key press/release alternation well-formed after steps were removed.
func normaliseScript(s []model.Event) []model.Event {
	type hk struct {
		h int
		c uint16
	}
	down := map[hk]bool{}
	var out []model.Event
	for _, e := range s {
		if e.Kind == "key" {
			k := hk{e.Handler, e.Code}
			if e.Value == 2 {
				if !down[k] {
					continue
				}
			} else if e.Value == 1 {
				if down[k] {
					continue
				}
				down[k] = true
			} else {
				if !down[k] {
					continue
				}
				delete(down, k)
			}
		}
		out = append(out, e)
	}
	return out
}

func schedConfig(seed uint64, rng *simrt.Rng) (simrt.Config, string) {
	cfg := simrt.Config{Seed: seed, MaxSteps: 3_000_000, MaxSimTime: 5 * time.Minute, TraceLen: 40,
		MinQuantum: 100 * time.Microsecond, MaxQuantum: 50 * time.Millisecond}
	switch rng.Pick(4, 3, 2) {
	case 0:
		cfg.Policy = simrt.PolicyUniform
	case 1:
		cfg.Policy = simrt.PolicySticky
		cfg.StickyP = 0.5 + 0.45*rng.Float()
	case 2:
		cfg.Policy = simrt.PolicyPriority
		cfg.ChangePoints = rng.Range(1, 5)
	}
	cfg.Unclean = hardUnclean
	if os.Getenv("VERIF_TRACE") != "" {
		cfg.TraceLen, cfg.TraceTime = 20000, true
	}
	// idle jumps of up to a second are harmless now that timer wake-ups interrupt them
	cfg.MinQuantum, cfg.MaxQuantum = 10*time.Millisecond, time.Second
	if rng.Chance(0.4) {
		cfg.StallP = []float64{0.01, 0.05, 0.2}[rng.Intn(3)]
		cfg.StallMax = []time.Duration{200 * time.Microsecond, 5 * time.Millisecond, 30 * time.Millisecond}[rng.Intn(3)]
	}
	cfg.ShuffleMaps = rng.Chance(0.8)
	cfg.ShuffleSelect = rng.Chance(0.8)
	return cfg, cfg.Policy.String()
}

func shorten(s string, n int) string {
	if len(s) > n {
		return s[:n] + "..."
	}
	return s
}

// withRaceCheck wraps a world so that, in -race builds, what the race detector reported during a run
// becomes that run's violation (C16) or, for reports without a frame in HIDI, an infrastructure error.
func withRaceCheck(fn worldFn, out *Output) worldFn {
	if !simrt.RaceBuild {
		return fn
	}
	return func(t *testing.T, job *Job, seed uint64, rp *Replay) RunOut {
		ro := fn(t, job, seed, rp)
		for _, rep := range newRaceReports() {
			out.Probes["race_reports"]++
			if !rep.Hidi {
				if ro.Infra == "" {
					ro.Infra = "race report without a frame in HIDI (harness bug?):\n" + rep.Text
				}
				continue
			}
			if job.Prop == "C15" {
				// C15 does not state race freedom; what it rests on is that spawn/despawn and the broadcast
				// take the same lock around the outputs map. Only an unsynchronised access to that map, with
				// both sides inside the fan-out, counts; anything else is recorded and ignored.
				fan := strings.Count(rep.Sig, "DynamicFanOut") >= 2
				mapOp := strings.Contains(rep.Text, "runtime.map") || strings.Contains(rep.Text, "simrt.MapKeys")
				if fan && mapOp {
					if ro.Vio == nil {
						ro.Vio = &Vio{Props: []string{"C15"}, Clause: "fanout_outputs_race", Sig: rep.Sig, Detail: "unsynchronised access to the fan-out's outputs map: " + rep.Sig + "\n" + shorten(rep.Text, 1800)}
						if ro.Replay == nil {
							ro.Replay = &Replay{World: job.World, Prop: job.Prop, Seed: seed, Tier: job.Tier}
						}
					}
				} else {
					out.Probes["race_report_outside_claim: "+rep.Sig]++
				}
				continue
			}
			if ro.Vio == nil {
				ro.Vio = &Vio{Props: []string{"C16"}, Clause: "data_race", Sig: rep.Sig, Detail: "race detector (scheduler synchronisation hidden): " + rep.Sig + "\n" + shorten(rep.Text, 1800)}
				if ro.Replay == nil {
					ro.Replay = &Replay{World: job.World, Prop: job.Prop, Seed: seed, Tier: job.Tier}
				}
			}
		}
		return ro
	}
}

func debugStack() []byte { return debug.Stack() }

// guarded runs f (code of the program under test, outside a bubble) with a generous wall-clock limit; a
// call that does not return is a hang. The stuck goroutine cannot be stopped, so the caller must end the
// process after reporting.
func guarded(limit time.Duration, f func()) (hung bool) {
	done := make(chan struct{})
	go func() {
		defer close(done)
		f()
	}()
	select {
	case <-done:
		return false
	case <-time.After(limit):
		return true
	}
}

// shrinkers propose strictly smaller variants of a world's workload / fault description (the "ops" of a replay
// file); minimiseOps applies them greedily while the same clause keeps failing.
var shrinkers = map[string]func(json.RawMessage) []json.RawMessage{}

// RegisterShrinker lets harnesses in other packages plug in a shrinker.
func RegisterShrinker(world string, f func(json.RawMessage) []json.RawMessage) { shrinkers[world] = f }

func minimiseOps(t *testing.T, fn worldFn, job *Job, seed uint64, ro RunOut, shrink func(json.RawMessage) []json.RawMessage) *Replay {
	best := *ro.Replay
	best.Clause, best.Sig, best.Detail = ro.Vio.Clause, ro.Vio.Sig, ro.Vio.Detail
	best.Hash = fmt.Sprintf("%016x", ro.Hash)
	deadline := time.Now().Add(60 * time.Second)
	tries := 0
	progress := true
	for progress && tries < 400 && time.Now().Before(deadline) {
		progress = false
		for _, cand := range shrink(best.Ops) {
			if tries >= 400 || time.Now().After(deadline) {
				break
			}
			tries++
			rp := best
			rp.Ops = cand
			rp.Override = true
			r := fn(t, job, seed, &rp)
			if r.Vio != nil && r.Vio.Clause == best.Clause && r.Infra == "" && r.Replay != nil {
				best.Ops = cand
				best.Detail, best.Sig = r.Vio.Detail, r.Vio.Sig
				best.Hash = fmt.Sprintf("%016x", r.Hash)
				best.Config = string(cand)
				best.Trace = r.Replay.Trace
				progress = true
				break
			}
		}
	}
	return &best
}

func mustJSON(v interface{}) json.RawMessage {
	b, _ := json.Marshal(v)
	return b
}

// SchedConfig is schedConfig for worlds that live in other packages (cmd/hidi).
func SchedConfig(seed uint64, rng *simrt.Rng) (simrt.Config, string) { return schedConfig(seed, rng) }

// NotePending is notePending for worlds that live in other packages.
func NotePending(v *Vio, rp *Replay) { notePending(v, rp) }
