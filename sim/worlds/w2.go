package worlds

import (
	"context"
	"encoding/json"
	"fmt"
	"sort"
	"strings"
	"sync"
	"testing"
	"time"

	"github.com/gethiox/HIDI/internal/pkg/logger"
	"github.com/gethiox/HIDI/internal/pkg/midi"
	"github.com/gethiox/HIDI/internal/pkg/midi/driver"
	"github.com/gethiox/HIDI/internal/pkg/utils"
	"github.com/gethiox/HIDI/verifsim/simrt"
)

func init() {
	register("W2", runW2)
	shrinkers["W2"] = shrinkW2
}

func shrinkW2(raw json.RawMessage) []json.RawMessage {
	var o w2Ops
	if json.Unmarshal(raw, &o) != nil {
		return nil
	}
	var out []json.RawMessage
	clone := func() w2Ops {
		c := o
		c.Emitters = append([]w2Emitter(nil), o.Emitters...)
		c.Consumers = append([]w2Consumer(nil), o.Consumers...)
		return c
	}
	for i := range o.Emitters {
		if len(o.Emitters) > 1 {
			c := clone()
			c.Emitters = append(c.Emitters[:i], c.Emitters[i+1:]...)
			out = append(out, mustJSON(c))
		}
		if o.Emitters[i].N > 1 {
			c := clone()
			c.Emitters[i].N /= 2
			out = append(out, mustJSON(c))
		}
	}
	for i := range o.Consumers {
		if len(o.Consumers) > 1 {
			c := clone()
			c.Consumers = append(c.Consumers[:i], c.Consumers[i+1:]...)
			out = append(out, mustJSON(c))
		}
		if o.Consumers[i].Churn > 1 {
			c := clone()
			c.Consumers[i].Churn--
			out = append(out, mustJSON(c))
		}
		if o.Consumers[i].Mode == "slow" {
			c := clone()
			c.Consumers[i].Mode = "fast"
			out = append(out, mustJSON(c))
		}
	}
	if o.InN > 2 {
		c := clone()
		c.InN = o.InN / 2
		out = append(out, mustJSON(c))
		c = clone()
		c.InN = o.InN - 1
		out = append(out, mustJSON(c))
	}
	if o.StallMs > 0 {
		c := clone()
		c.StallMs, c.StallAfter = 0, 0
		out = append(out, mustJSON(c))
	}
	for i, e := range o.Emitters {
		if e.Dup || e.Kind != 0 {
			c := clone()
			c.Emitters[i].Dup, c.Emitters[i].Kind = false, 0
			out = append(out, mustJSON(c))
		}
	}
	if o.PortSlow > 0 {
		c := clone()
		c.PortSlow = 0
		out = append(out, mustJSON(c))
	}
	return out
}

// --- fake MIDI port (the existing seam: driver.MIDIIn / driver.MIDIOut) ---

type fakeOut struct{ c chan []byte }

func (o *fakeOut) Name() string               { return "sim out" }
func (o *fakeOut) Open() error                { return nil }
func (o *fakeOut) Close() error               { return nil }
func (o *fakeOut) SendChannel() chan<- []byte { return o.c }

type fakeIn struct{ c chan []byte }

func (i *fakeIn) Name() string                  { return "sim in" }
func (i *fakeIn) Open() error                   { return nil }
func (i *fakeIn) Close() error                  { return nil }
func (i *fakeIn) ReceiveChannel() <-chan []byte { return i.c }

// --- workload description (also the replay format of this world) ---

type w2Emitter struct {
	N      int   `json:"n"`
	Delays []int `json:"delays_us"` // delay before each message, cycled
	// Kind: the status nibble of this emitter's messages (0 = 0x90). Dup: every message is sent twice, byte for
	// byte (two holders of a pitch released one after the other send two identical Note Offs)
	Kind byte `json:"kind,omitempty"`
	Dup  bool `json:"dup,omitempty"`
}

func (e w2Emitter) status(ei int) byte {
	k := e.Kind
	if k == 0 {
		k = 0x90
	}
	return k | byte(ei)
}

// content of the n-th message of an emitter
func (e w2Emitter) seq(n int) int {
	if e.Dup {
		return n / 2
	}
	return n
}

type w2Consumer struct {
	StartMs   int    `json:"start_ms"`   // when it attaches
	Mode      string `json:"mode"`       // fast | slow | stop
	SlowUs    int    `json:"slow_us"`    // per-message delay for slow consumers
	StopAfter int    `json:"stop_after"` // stop reading after this many messages (mode stop)
	DetachMs  int    `json:"detach_ms"`  // when DespawnOutput is called (-1: never)
	// Churn > 0: instead of one attachment, attach / read for HoldUs / stop reading / detach, Churn times in a
	// row (what a device that is unplugged and replugged, or a configuration reload, does)
	Churn  int `json:"churn,omitempty"`
	HoldUs int `json:"hold_us,omitempty"`
	GapUs  int `json:"gap_us,omitempty"`
}

type w2Ops struct {
	Emitters  []w2Emitter  `json:"emitters"`
	InN       int          `json:"in_n"`
	InDelays  []int        `json:"in_delays_us"`
	Consumers []w2Consumer `json:"consumers"`
	PortSlow  int          `json:"port_slow_us"`
	// the port stops taking messages for StallMs after its StallAfter-th message (a busy ALSA client)
	StallAfter int `json:"port_stall_after,omitempty"`
	StallMs    int `json:"port_stall_ms,omitempty"`
	CapOut    int          `json:"cap_out"`
	CapIn     int          `json:"cap_in"`
	Profile   string       `json:"profile"`
}

func genW2(r *simrt.Rng, tier string) *w2Ops {
	o := &w2Ops{CapOut: 8, CapIn: 8, Profile: "responsive"}
	if r.Chance(0.25) {
		o.CapOut = []int{0, 1, 8, 16}[r.Intn(4)]
		o.CapIn = []int{0, 1, 8, 16}[r.Intn(4)]
	}
	// low weight: a consumer that stops reading while traffic continues (the confirmed defect of the pinned tree)
	if r.Chance(0.12) {
		o.Profile = "stalled-consumer"
	}
	delays := func() []int {
		n := r.Range(1, 4)
		d := make([]int, n)
		for i := range d {
			d[i] = []int{0, 0, 0, 50, 200, 1000, 5000}[r.Intn(7)]
		}
		return d
	}
	ne := r.Range(1, 4)
	for i := 0; i < ne; i++ {
		e := w2Emitter{N: r.Range(1, 40), Delays: delays()}
		if r.Chance(0.3) {
			e.Kind = []byte{0x80, 0xB0, 0xE0, 0x90}[r.Intn(4)]
			e.Dup = r.Chance(0.7)
		}
		o.Emitters = append(o.Emitters, e)
	}
	if r.Chance(0.15) {
		o.StallAfter, o.StallMs = r.Range(1, 30), []int{300, 700, 1500}[r.Intn(3)]
	}
	o.InN = r.Range(5, 80)
	o.InDelays = delays()
	if r.Chance(0.3) {
		o.PortSlow = []int{100, 1000, 3000}[r.Intn(3)]
	}
	nc := r.Range(1, 4)
	for i := 0; i < nc; i++ {
		c := w2Consumer{StartMs: r.Intn(30), Mode: "fast", DetachMs: -1}
		switch r.Pick(5, 4) {
		case 1:
			c.Mode = "slow"
			c.SlowUs = []int{50, 500, 2000, 10000}[r.Intn(4)]
		}
		if r.Chance(0.6) {
			c.DetachMs = c.StartMs + r.Intn(60)
		}
		o.Consumers = append(o.Consumers, c)
	}
	if r.Chance(0.3) {
		// churn: several consumers attaching and detaching in quick succession while traffic flows
		o.Profile = "churn"
		for len(o.Consumers) < 3 || (len(o.Consumers) < 6 && r.Chance(0.4)) {
			// a removal and an attachment have to meet within a few instructions: several devices doing it at once
			o.Consumers = append(o.Consumers, w2Consumer{Mode: "fast", DetachMs: -1})
		}
		for i := range o.Consumers {
			c := &o.Consumers[i]
			c.Churn = r.Range(2, 9)
			c.HoldUs = []int{0, 0, 50, 300, 2000}[r.Intn(5)]
			c.GapUs = []int{0, 0, 0, 30, 500}[r.Intn(5)]
			c.StartMs = r.Intn(5)
		}
		o.InDelays = []int{0, 0, 50, 200}
		if o.InN < 40 {
			o.InN = 40 + r.Intn(60)
		}
	}
	if o.Profile == "stalled-consumer" {
		c := &o.Consumers[r.Intn(len(o.Consumers))]
		c.Mode = "stop"
		c.StopAfter = r.Intn(6)
		c.DetachMs = c.StartMs + 5 + r.Intn(60)
	}
	return o
}

type w2Recv struct {
	seq  int
	step int
}

type w2ConsState struct {
	spawned   int // step at which SpawnOutput returned (-1: not yet)
	despawn0  int // step at which DespawnOutput was invoked
	despawn1  int // step at which it returned (-1: not)
	despawnT0 time.Duration
	despawnT1 time.Duration
	got       []w2Recv
	mode      string
	reading   bool // still reading at the end (not stopped)
	id        int64
	err       string
}

type w2World struct {
	mu      sync.Mutex
	port    [][]byte
	emStart map[string]int
	emEnd   map[string]int
	inStart []int // step at which the injection of message i started
	inEnd   []int
	cons    []*w2ConsState
}

func seqMsg(status byte, n int) []byte { return []byte{status, byte(n >> 7 & 0x7f), byte(n & 0x7f)} }
func msgSeq(b []byte) int              { return int(b[1])<<7 | int(b[2]) }

func runW2(t *testing.T, job *Job, seed uint64, rp *Replay) RunOut {
	ro := RunOut{Faults: map[string]int{}, Probes: map[string]int{}}
	r := simrt.NewRng(seed, "workload")
	ops := genW2(r, job.Tier)
	if rp != nil && rp.Override && len(rp.Ops) > 0 {
		var o w2Ops
		if err := json.Unmarshal(rp.Ops, &o); err != nil {
			ro.Infra = "bad replay ops: " + err.Error()
			return ro
		}
		ops = &o
	}
	scfg, pol := schedConfig(seed, simrt.NewRng(seed, "schedcfg"))
	ro.Policy = pol
	w := &w2World{emStart: map[string]int{}, emEnd: map[string]int{}}
	var vio *Vio
	res := simrt.Run(t, scfg, func() {
		logger.Messages = make(chan []byte, 1024)
		stop := make(chan struct{})
		go func() {
			for {
				select {
				case <-logger.Messages:
				case <-stop:
					return
				}
			}
		}()
		defer close(stop)
		ctx, cancel := context.WithCancel(context.Background())
		defer cancel()
		po := &fakeOut{c: make(chan []byte, 16)}
		pi := &fakeIn{c: make(chan []byte, 16)}
		evOut := make(chan midi.Event, ops.CapOut)
		evIn := make(chan midi.Event, ops.CapIn)
		score := midi.Score{}
		midi.ProcessMidiEvents(ctx, driver.Port{Input: pi, Output: po}, evOut, evIn, &score)
		fan := utils.NewDynamicFanOut[midi.Event](evIn)

		// port side: the "synth"
		simrt.Go("port", func() {
			for {
				b, ok := simrt.Recv(po.c)
				if !ok {
					return
				}
				w.mu.Lock()
				w.port = append(w.port, append([]byte(nil), b...))
				np := len(w.port)
				w.mu.Unlock()
				if ops.StallMs > 0 && np == ops.StallAfter {
					simrt.Sleep(time.Duration(ops.StallMs) * time.Millisecond)
				}
				if ops.PortSlow > 0 {
					simrt.Sleep(time.Duration(ops.PortSlow) * time.Microsecond)
				}
			}
		})
		var wg sync.WaitGroup // real WaitGroup used only by the harness root to know when injections are done
		pending := 0
		var pmu sync.Mutex
		done := func() { pmu.Lock(); pending--; pmu.Unlock() }
		for ei, e := range ops.Emitters {
			ei, e := ei, e
			pmu.Lock()
			pending++
			pmu.Unlock()
			simrt.Go(fmt.Sprintf("emitter%d", ei), func() {
				defer done()
				for n := 0; n < e.N; n++ {
					if d := e.Delays[n%len(e.Delays)]; d > 0 {
						simrt.Sleep(time.Duration(d) * time.Microsecond)
					}
					m := seqMsg(e.status(ei), e.seq(n))
					key := fmt.Sprintf("%d/%d", ei, n)
					simrt.Yield("h.emit")
					w.mu.Lock()
					w.emStart[key] = simrt.Steps()
					w.mu.Unlock()
					evOut <- midi.Event(m)
					w.mu.Lock()
					w.emEnd[key] = simrt.Steps()
					w.mu.Unlock()
					simrt.Yield("h.emitted")
				}
			})
		}
		pmu.Lock()
		pending++
		pmu.Unlock()
		simrt.Go("injector", func() {
			defer done()
			for n := 0; n < ops.InN; n++ {
				if d := ops.InDelays[n%len(ops.InDelays)]; d > 0 {
					simrt.Sleep(time.Duration(d) * time.Microsecond)
				}
				simrt.Yield("h.inject")
				w.mu.Lock()
				w.inStart = append(w.inStart, simrt.Steps())
				w.mu.Unlock()
				pi.c <- seqMsg(0xB0, n)
				w.mu.Lock()
				w.inEnd = append(w.inEnd, simrt.Steps())
				w.mu.Unlock()
				simrt.Yield("h.injected")
			}
		})
		for ci, c := range ops.Consumers {
			ci, c := ci, c
			cs := &w2ConsState{spawned: -1, despawn0: -1, despawn1: -1, mode: c.Mode}
			w.mu.Lock()
			w.cons = append(w.cons, cs)
			w.mu.Unlock()
			pmu.Lock()
			pending++
			pmu.Unlock()
			simrt.Go(fmt.Sprintf("consumer%d", ci), func() {
				defer done()
				simrt.Sleep(time.Duration(c.StartMs) * time.Millisecond)
				if c.Churn > 0 {
					// the first cycle uses the pre-allocated record, later cycles append their own
					for cyc := 0; cyc < c.Churn; cyc++ {
						st := cs
						if cyc > 0 {
							st = &w2ConsState{spawned: -1, despawn0: -1, despawn1: -1}
							w.mu.Lock()
							w.cons = append(w.cons, st)
							w.mu.Unlock()
						}
						st.mode = "churn"
						id, ch, err := fan.SpawnOutput()
						if err != nil {
							st.err = err.Error()
							return
						}
						w.mu.Lock()
						st.id, st.spawned, st.reading = id, simrt.Steps(), true
						w.mu.Unlock()
						until := simrt.Now() + time.Duration(c.HoldUs)*time.Microsecond
						for simrt.Now() < until {
							ev, ok, closed := simrt.TryRecv(ch)
							if closed {
								break
							}
							if ok {
								w.mu.Lock()
								st.got = append(st.got, w2Recv{msgSeq(ev), simrt.Steps()})
								w.mu.Unlock()
							} else {
								simrt.Sleep(20 * time.Microsecond)
							}
						}
						// stop reading, then remove (the order a real device follows)
						w.mu.Lock()
						st.reading = false
						st.despawn0, st.despawnT0 = simrt.Steps(), simrt.Now()
						w.mu.Unlock()
						simrt.Yield("h.despawn")
						err = fan.DespawnOutput(id)
						w.mu.Lock()
						st.despawn1, st.despawnT1 = simrt.Steps(), simrt.Now()
						if err != nil {
							st.err = err.Error()
						}
						w.mu.Unlock()
						for ev := range ch {
							w.mu.Lock()
							st.got = append(st.got, w2Recv{msgSeq(ev), simrt.Steps()})
							w.mu.Unlock()
						}
						if c.GapUs > 0 {
							simrt.Sleep(time.Duration(c.GapUs) * time.Microsecond)
						}
					}
					return
				}
				id, ch, err := fan.SpawnOutput()
				if err != nil {
					cs.err = err.Error()
					return
				}
				w.mu.Lock()
				cs.id = id
				cs.spawned = simrt.Steps()
				cs.reading = true
				w.mu.Unlock()
				detached := make(chan struct{})
				if c.DetachMs >= 0 {
					simrt.Go(fmt.Sprintf("detacher%d", ci), func() {
						simrt.Sleep(time.Duration(c.DetachMs-c.StartMs) * time.Millisecond)
						w.mu.Lock()
						cs.despawn0 = simrt.Steps()
						cs.despawnT0 = simrt.Now()
						w.mu.Unlock()
						simrt.Yield("h.despawn")
						err := fan.DespawnOutput(id)
						w.mu.Lock()
						cs.despawn1 = simrt.Steps()
						cs.despawnT1 = simrt.Now()
						if err != nil {
							cs.err = err.Error()
						}
						w.mu.Unlock()
						close(detached)
					})
				}
				n := 0
				for {
					if c.Mode == "stop" && n >= c.StopAfter {
						w.mu.Lock()
						cs.reading = false
						w.mu.Unlock()
						// stopped reading; once the output has been removed, drain what was buffered
						if c.DetachMs < 0 {
							return
						}
						simrt.Yield("h.waitdetach")
						<-detached
						simrt.Yield("h.detached")
						for ev := range ch {
							w.mu.Lock()
							cs.got = append(cs.got, w2Recv{msgSeq(ev), simrt.Steps()})
							w.mu.Unlock()
						}
						return
					}
					ev, ok := simrt.Recv(ch)
					if !ok {
						return
					}
					n++
					w.mu.Lock()
					cs.got = append(cs.got, w2Recv{msgSeq(ev), simrt.Steps()})
					w.mu.Unlock()
					if c.Mode == "slow" {
						simrt.Sleep(time.Duration(c.SlowUs) * time.Microsecond)
					}
				}
			})
		}
		_ = wg
		// run until nothing moves any more (bounded), then judge the recorded history
		deadline := simrt.Now() + 30*time.Second
		last, stable := -1, 0
		need := 6 + ops.StallMs/50 + 2 // a stalled port is not the end of the run
		for simrt.Now() < deadline && stable < need {
			simrt.Sleep(50 * time.Millisecond)
			pmu.Lock()
			snap := pending * 1000003
			pmu.Unlock()
			w.mu.Lock()
			snap += len(w.port) + len(w.inEnd)*7
			for _, cs := range w.cons {
				snap += len(cs.got)*13 + cs.despawn1
			}
			w.mu.Unlock()
			if snap == last {
				stable++
			} else {
				stable = 0
			}
			last = snap
		}
		simrt.WaitIdle()
		vio = w.check(ops)
		if vio != nil {
			bb, _ := json.Marshal(ops)
			notePending(vio, &Replay{World: "W2", Prop: "C15", Seed: seed, Ops: bb, Override: true})
		}
		simrt.Stop()
	})
	ro.Steps, ro.SimTime, ro.Hash, ro.Choices = res.Steps, res.SimTime, res.SchedHash, res.Choices
	ro.Nontriv = res.Choices > 0
	for _, p := range res.Panics {
		if strings.Contains(p.Value, "SIMGEN-UNSUPPORTED") {
			ro.Infra = p.Value
		} else if vio == nil {
			vio = &Vio{Props: []string{"C15"}, Clause: "panic", Sig: ops.Profile, Detail: "panic in " + p.Task + ": " + p.Value}
		}
	}
	ro.Messages = len(w.port)
	for _, c := range w.cons {
		ro.Messages += len(c.got)
	}
	for _, c := range ops.Consumers {
		ro.Faults["consumer_"+c.Mode]++
		if c.DetachMs >= 0 {
			ro.Faults["detach_while_traffic"]++
		}
	}
	ro.Faults["attach_late"] += len(ops.Consumers)
	if ops.StallMs > 0 {
		ro.Faults["port_stalls"]++
	}
	for _, e := range ops.Emitters {
		if e.Dup {
			ro.Faults["identical_consecutive_messages"]++
		}
	}
	if ops.PortSlow > 0 {
		ro.Faults["slow_port"]++
	}
	b, _ := json.Marshal(ops)
	if vio != nil {
		ro.Vio = vio
		ro.Replay = &Replay{World: "W2", Prop: "C15", Seed: seed, Tier: job.Tier, Ops: b, Override: true, Trace: res.Trace, Config: string(b)}
	}
	ro.Sample = fmt.Sprintf("seed=%d policy=%s ops=%s", seed, pol, string(b))
	return ro
}

// check evaluates the C15 oracles over the recorded history.
func (w *w2World) check(ops *w2Ops) *Vio {
	w.mu.Lock()
	defer w.mu.Unlock()
	mk := func(clause, detail string) *Vio {
		return &Vio{Props: []string{"C15"}, Clause: clause, Sig: ops.Profile, Detail: detail}
	}
	// ---- liveness of removal ----
	for i, cs := range w.cons {
		if cs.despawn0 >= 0 && cs.despawn1 < 0 {
			return mk("despawn_never_returns", fmt.Sprintf("consumer %d (%s): DespawnOutput invoked at t=%v has not returned when the run ended (t=%v)", i, cs.mode, cs.despawnT0, simrt.Now()))
		}
		if cs.despawn1 >= 0 && cs.despawnT1-cs.despawnT0 > 5*time.Second {
			return mk("despawn_slow", fmt.Sprintf("consumer %d: DespawnOutput took %v", i, cs.despawnT1-cs.despawnT0))
		}
		if cs.err != "" {
			return mk("spawn_despawn_error", fmt.Sprintf("consumer %d: %s", i, cs.err))
		}
	}
	// ---- output direction ----
	total := 0
	for _, e := range ops.Emitters {
		total += e.N
	}
	next := map[byte]int{}
	pos := map[string]int{}
	for i, b := range w.port {
		if len(b) != 3 {
			return mk("out_corrupted", fmt.Sprintf("port received % x", b))
		}
		e := b[0] & 0x0f
		if int(e) >= len(ops.Emitters) || b[0] != ops.Emitters[e].status(int(e)) {
			return mk("out_corrupted", fmt.Sprintf("port received % x which no emitter sent", b))
		}
		s := msgSeq(b)
		if want := ops.Emitters[e].seq(next[e]); s != want {
			return mk("out_order_or_duplicate", fmt.Sprintf("port message %d carries #%d of emitter %d, its message %d carries #%d (lost, duplicated or reordered)", i, s, e, next[e], want))
		}
		pos[fmt.Sprintf("%d/%d", e, next[e])] = i
		next[e]++
	}
	for ei, e := range ops.Emitters {
		for n := 0; n < e.N; n++ {
			key := fmt.Sprintf("%d/%d", ei, n)
			if _, sent := w.emEnd[key]; sent {
				if _, ok := pos[key]; !ok {
					return mk("out_lost", fmt.Sprintf("message %s was accepted by the output channel but never reached the port (%d of %d arrived)", key, len(w.port), total))
				}
			}
		}
	}
	// real-time order: X completed before Y started => X before Y at the port
	keys := make([]string, 0, len(pos))
	for k := range pos {
		keys = append(keys, k)
	}
	sort.Slice(keys, func(i, j int) bool { return pos[keys[i]] < pos[keys[j]] })
	maxStartSoFar := -1
	var maxKey string
	for _, k := range keys { // in port order: no later-port message may have ended before an earlier-port one started
		if end, ok := w.emEnd[k]; ok && end < maxStartSoFar {
			return mk("out_reordered", fmt.Sprintf("message %s was emitted completely (step %d) before %s started (step %d) but reached the port after it", k, end, maxKey, maxStartSoFar))
		}
		if s := w.emStart[k]; s > maxStartSoFar {
			maxStartSoFar, maxKey = s, k
		}
	}
	// ---- input direction ----
	injected := len(w.inEnd)
	for i, cs := range w.cons {
		if cs.spawned < 0 {
			continue
		}
		for j := 1; j < len(cs.got); j++ {
			if cs.got[j].seq != cs.got[j-1].seq+1 {
				return mk("in_gap_dup_or_reorder", fmt.Sprintf("consumer %d received #%d after #%d (its stream: %s)", i, cs.got[j].seq, cs.got[j-1].seq, seqs(cs.got)))
			}
		}
		a, b := -1, -1
		if len(cs.got) > 0 {
			a, b = cs.got[0].seq, cs.got[len(cs.got)-1].seq
			if a < 0 || b >= len(w.inStart) {
				return mk("in_corrupted", fmt.Sprintf("consumer %d received #%d..#%d but only %d messages were injected", i, a, b, len(w.inStart)))
			}
		}
		// first message whose injection started after SpawnOutput returned
		first := -1
		for m, st := range w.inStart {
			if st > cs.spawned {
				first = m
				break
			}
		}
		// upper end of what it must have: messages completely broadcast while it was attached
		mustHi := -1
		if cs.despawn0 < 0 {
			if cs.reading || cs.mode != "stop" {
				mustHi = injected - 1 // attached and reading until the end: everything injected
			}
		} else {
			// m is certain when some consumer received m+1 before this consumer's DespawnOutput was invoked
			for _, o := range w.cons {
				for _, g := range o.got {
					if g.step < cs.despawn0 && g.seq-1 > mustHi {
						mustHi = g.seq - 1
					}
				}
			}
		}
		if cs.mode == "stop" && cs.despawn0 < 0 {
			mustHi = -1
		}
		if first >= 0 && mustHi >= first {
			if a < 0 || a > first || b < mustHi {
				have := "nothing"
				if a >= 0 {
					have = fmt.Sprintf("#%d..#%d", a, b)
				}
				return mk("in_incomplete", fmt.Sprintf("consumer %d (%s, attached at step %d, despawn at %d) must have #%d..#%d, has %s; %d injected", i, cs.mode, cs.spawned, cs.despawn0, first, mustHi, have, injected))
			}
		}
		if cs.despawn1 >= 0 && b >= 0 {
			// nothing injected after DespawnOutput returned may arrive
			if w.inStart[b] > cs.despawn1 {
				return mk("in_after_despawn", fmt.Sprintf("consumer %d received #%d whose injection started after its DespawnOutput had returned", i, b))
			}
		}
	}
	return nil
}

func seqs(g []w2Recv) string {
	var s []string
	for i, x := range g {
		if i > 30 {
			s = append(s, "...")
			break
		}
		s = append(s, fmt.Sprint(x.seq))
	}
	return strings.Join(s, ",")
}
