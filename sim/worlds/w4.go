package worlds

import (
	"context"
	"encoding/json"
	"fmt"
	"sort"
	"strings"
	"sync"
	"testing"
	"time"

	"github.com/gethiox/HIDI/internal/pkg/input"
	"github.com/gethiox/HIDI/internal/pkg/midi/device/config"
	"github.com/gethiox/HIDI/verifsim/model"
	"github.com/gethiox/HIDI/verifsim/simfs"
	"github.com/gethiox/HIDI/verifsim/simrt"
	openrgb "github.com/realbucksavage/openrgb-go"
)

func init() {
	register("W4C10", runW4C10)
	register("W4C12", runW4C12)
	register("W4C09", runW4C09)
}

const (
	dirFG = "hidi-config/factory/gamepad"
	dirFK = "hidi-config/factory/keyboard"
	dirUG = "hidi-config/user/gamepad"
	dirUK = "hidi-config/user/keyboard"
)

var fourDirs = []string{dirFG, dirFK, dirUG, dirUK}

func hexColor(c openrgb.Color) string { return fmt.Sprintf("%02x%02x%02x", c.Red, c.Green, c.Blue) }

// projectConfig renders what a loaded configuration says, in the vocabulary of model.Expectation.
func projectConfig(c config.Config) map[string]string {
	e := map[string]string{}
	e["mode"] = string(c.CollisionMode)
	var ex []string
	for _, k := range c.ExitSequence {
		ex = append(ex, fmt.Sprint(uint16(k)))
	}
	e["exit"] = strings.Join(ex, ",")
	e["id"] = fmt.Sprintf("%d/%d/%d/%d", c.ID.Bus, c.ID.Vendor, c.ID.Product, c.ID.Version)
	e["uniq"] = c.Uniq
	e["defaults"] = fmt.Sprintf("%d,%d,%d,%d,%d", c.Defaults.Octave, c.Defaults.Semitone, c.Defaults.Channel, c.Defaults.Mapping, c.Defaults.Velocity)
	for code, a := range c.ActionMapping {
		e[fmt.Sprintf("action/%d", uint16(code))] = string(a)
	}
	cl := c.OpenRGB.Colors
	for n, v := range map[string]openrgb.Color{"white": cl.White, "black": cl.Black, "c": cl.C, "unavailable": cl.Unavailable, "other": cl.Other, "active": cl.Active, "active_external": cl.ActiveExternal} {
		e["color/"+n] = hexColor(v)
	}
	e["mappings"] = fmt.Sprint(len(c.KeyMappings))
	for i, m := range c.KeyMappings {
		p := fmt.Sprintf("m%d/", i)
		e[p+"name"] = m.Name
		for sub, keys := range m.Midi {
			for code, k := range keys {
				e[fmt.Sprintf("%skey/%s/%d", p, sub, uint16(code))] = fmt.Sprintf("%d,%d", k.Note, k.ChannelOffset)
			}
		}
		for sub, v := range m.DefaultDeadzone {
			e[p+"ddz/"+sub] = fmt.Sprintf("%g", v)
		}
		for sub, dz := range m.Deadzones {
			for code, v := range dz {
				e[fmt.Sprintf("%sdz/%s/%d", p, sub, uint16(code))] = fmt.Sprintf("%g", v)
			}
		}
		for sub, axes := range m.Analog {
			for code, a := range axes {
				var s string
				neg := func(v byte) string {
					if a.Bidirectional {
						return fmt.Sprint(v)
					}
					return "-"
				}
				switch a.MappingType {
				case config.AnalogCC:
					s = fmt.Sprintf("cc cc=%d neg=%s off=%d offneg=%d flip=%v dzc=%v", a.CC, neg(a.CCNeg), a.ChannelOffset, a.ChannelOffsetNeg, a.FlipAxis, a.DeadzoneAtCenter)
				case config.AnalogPitchBend:
					s = fmt.Sprintf("pitch_bend off=%d flip=%v dzc=%v", a.ChannelOffset, a.FlipAxis, a.DeadzoneAtCenter)
				case config.AnalogKeySim:
					s = fmt.Sprintf("key note=%d neg=%s off=%d offneg=%d flip=%v dzc=%v", a.Note, neg(a.NoteNeg), a.ChannelOffset, a.ChannelOffsetNeg, a.FlipAxis, a.DeadzoneAtCenter)
				case config.AnalogActionSim:
					n := "-"
					if a.ActionNeg != "" {
						n = string(a.ActionNeg)
					}
					s = fmt.Sprintf("action a=%s neg=%s flip=%v dzc=%v", a.Action, n, a.FlipAxis, a.DeadzoneAtCenter)
				default:
					s = string(a.MappingType)
				}
				e[fmt.Sprintf("%saxis/%s/%d", p, sub, uint16(code))] = s
			}
		}
	}
	return e
}

// richDesc draws a description that uses every feature of the file format.
func richDesc(r *simrt.Rng, id int) *model.Desc {
	acts := append([]string{}, allActions...)
	o := genOpts{nKeys: [2]int{1, 14}, nMaps: [2]int{1, 4}, notePool: intsRange(0, 127), offsets: true, actions: acts[:r.Range(0, len(acts))], exitLen: r.Range(-1, 3), exitShared: true,
		defaults: true, unmapProb: 0.3, remapProb: 0.5, axes: r.Range(0, 5), axisKinds: []string{"cc", "cc2", "pitch_bend", "key", "key1", "action", "action1", "none"}, axisKindsPerMapping: true,
		handlers: r.Range(1, 3), edgeNotes: r.Chance(0.3), analogSubs: true}
	d := baseDesc(r, o)
	d.ID = [4]uint16{uint16(r.Intn(8)), uint16(0x1000 + id), uint16(r.Intn(65536)), uint16(r.Intn(65536))}
	if r.Chance(0.3) {
		d.Uniq = fmt.Sprintf("aa:bb:%02x", r.Intn(256))
	}
	for mi := range d.Mappings {
		for si := range d.Mappings[mi].Analog {
			sa := &d.Mappings[mi].Analog[si]
			if r.Chance(0.3) {
				sa.DefaultDZ = fp(float64(r.Intn(100)) / 100)
			}
			for ai := range sa.Axes {
				a := &sa.Axes[ai]
				a.DZCenter = r.Chance(0.3)
				if a.Type != "action" {
					if r.Chance(0.4) {
						a.HasOff, a.Off = true, r.Range(0, 15)
					}
					if r.Chance(0.4) && a.Type != "pitch_bend" {
						a.HasOffNeg, a.OffNeg = true, r.Range(0, 15)
					}
				}
				if r.Chance(0.3) {
					a.Deadzone = fp(float64(r.Intn(1000)) / 1000)
				}
			}
		}
	}
	return d
}

type invalidation struct {
	name  string
	apply func(r *simrt.Rng, d *model.Desc, text string) (string, bool) // returns the new file text
}

func firstKey(d *model.Desc) *model.KeyDesc {
	for mi := range d.Mappings {
		for si := range d.Mappings[mi].Keys {
			if len(d.Mappings[mi].Keys[si].Keys) > 0 {
				return &d.Mappings[mi].Keys[si].Keys[0]
			}
		}
	}
	return nil
}

// axisOfType picks (at random, from the package-level PRNG of the current run) one axis of the wanted type.
var axisPick *simrt.Rng

func axisOfType(d *model.Desc, typ string, pred func(*model.AxisDesc) bool) *model.AxisDesc {
	var cands []*model.AxisDesc
	for mi := range d.Mappings {
		for si := range d.Mappings[mi].Analog {
			for ai := range d.Mappings[mi].Analog[si].Axes {
				a := &d.Mappings[mi].Analog[si].Axes[ai]
				if (typ == "" || a.Type == typ) && (pred == nil || pred(a)) {
					cands = append(cands, a)
				}
			}
		}
	}
	if len(cands) == 0 {
		return nil
	}
	if axisPick == nil {
		return cands[0]
	}
	return cands[axisPick.Intn(len(cands))]
}

func descEdit(f func(r *simrt.Rng, d *model.Desc) bool) func(*simrt.Rng, *model.Desc, string) (string, bool) {
	return func(r *simrt.Rng, d *model.Desc, _ string) (string, bool) {
		c := d.Clone()
		if !f(r, c) {
			return "", false
		}
		return c.TOML(), true
	}
}

func textInsert(after string, line string) func(*simrt.Rng, *model.Desc, string) (string, bool) {
	return func(r *simrt.Rng, d *model.Desc, text string) (string, bool) {
		i := strings.Index(text, after)
		if i < 0 {
			return "", false
		}
		j := i + len(after)
		return text[:j] + "\n" + line + text[j:], true
	}
}

var invalidations = []invalidation{
	{"unknown top-level field", func(r *simrt.Rng, d *model.Desc, text string) (string, bool) { return "bogus_field = 1\n" + text, true }},
	{"unknown field in [defaults]", textInsert("[defaults]", "  loudness = 3")},
	{"unknown field in [identifier]", textInsert("[identifier]", "  serial = 3")},
	{"unknown field in [[mapping]]", textInsert("[[mapping]]", "  colour = \"red\"")},
	{"unknown field in [open_rgb]", textInsert("[open_rgb]", "  whiet = 0x00ff00")},
	{"unknown field in an analog entry", descEdit(func(r *simrt.Rng, d *model.Desc) bool {
		a := axisOfType(d, "", nil)
		if a == nil {
			return false
		}
		a.Name = a.Name + " = { type = \"cc\", cc = 1, wat = 2 }\n      ABS_MISC"
		return true
	})},
	{"unknown key name in keys map", descEdit(func(r *simrt.Rng, d *model.Desc) bool {
		k := firstKey(d)
		if k == nil {
			return false
		}
		k.Name = []string{"KEY_NOPE", "key_a", "A", "xzz", "x1ffff", "BTN_", "ABS_X", "x1fz", "x1e_", "x1g", "x3-b", "x_1f", "x"}[r.Intn(13)]
		return true
	})},
	{"unknown axis name", descEdit(func(r *simrt.Rng, d *model.Desc) bool {
		a := axisOfType(d, "", nil)
		if a == nil {
			return false
		}
		a.Name = []string{"ABS_NOPE", "abs_x", "KEY_A", "xqq", "x0z", "x1_", "x2-1"}[r.Intn(7)]
		return true
	})},
	{"unknown key name in action_mapping", descEdit(func(r *simrt.Rng, d *model.Desc) bool {
		d.Actions = append(d.Actions, model.ActionKey{Name: []string{"KEY_NOPE", "x1fz", "x3-b", "x10000"}[r.Intn(4)], Action: "panic"})
		return true
	})},
	{"unknown key name in exit_sequence", descEdit(func(r *simrt.Rng, d *model.Desc) bool {
		d.HasExit = true
		d.Exit = append(d.Exit, model.ActionKey{Name: []string{"KEY_NOPE", "x1fz", "x1g", "x10000"}[r.Intn(4)]})
		return true
	})},
	{"unknown note name", descEdit(func(r *simrt.Rng, d *model.Desc) bool {
		k := firstKey(d)
		if k == nil {
			return false
		}
		k.NoteText = []string{"h3", "H3", "e#1", "B#0", "c9", "c-3", "cc3", "", "c3x", " c3", "c 3", "z-2", "g#8", "c#", "3c", "c--1", "do3",
			"c10", "c20", "c-20", "c-15", "a-10", "c99", "g#19", "d-21", "c020", "c+3", "0x3c", "0X3C", "0b1100", "0o17", "1_0", "6e1", "60.0"}[r.Intn(34)]
		return true
	})},
	{"unknown action", descEdit(func(r *simrt.Rng, d *model.Desc) bool {
		if len(d.Actions) == 0 {
			return false
		}
		d.Actions[r.Intn(len(d.Actions))].Action = []string{"fly", "", "Panic", "octave", "octave_up "}[r.Intn(5)]
		return true
	})},
	{"unknown action in an analog entry", descEdit(func(r *simrt.Rng, d *model.Desc) bool {
		a := axisOfType(d, "action", nil)
		if a == nil {
			return false
		}
		if a.ActionNeg != nil && r.Chance(0.5) {
			a.ActionNeg = sp("fly")
		} else {
			a.Action = sp("fly")
		}
		return true
	})},
	{"unknown mapping type", descEdit(func(r *simrt.Rng, d *model.Desc) bool {
		a := axisOfType(d, "", nil)
		if a == nil {
			return false
		}
		a.Type = []string{"slider", "", "CC", "pitchbend", "note"}[r.Intn(5)]
		return true
	})},
	{"unknown collision mode", descEdit(func(r *simrt.Rng, d *model.Desc) bool {
		d.Mode = []string{"maybe", "", "Off", "no-repeat", "retrigger "}[r.Intn(5)]
		return true
	})},
	{"out-of-range key note", descEdit(func(r *simrt.Rng, d *model.Desc) bool {
		k := firstKey(d)
		if k == nil {
			return false
		}
		k.NoteText = []string{"128", "-1", "255", "256", "1000", "99999999999"}[r.Intn(6)]
		return true
	})},
	{"out-of-range analog note", descEdit(func(r *simrt.Rng, d *model.Desc) bool {
		a := axisOfType(d, "key", nil)
		if a == nil {
			return false
		}
		v := []int{128, -1, 255, 256, 1000}[r.Intn(5)]
		if a.NoteNeg != nil && r.Chance(0.5) {
			a.NoteNeg = ip(v)
		} else {
			a.Note = ip(v)
		}
		return true
	})},
	{"out-of-range controller", descEdit(func(r *simrt.Rng, d *model.Desc) bool {
		a := axisOfType(d, "cc", nil)
		if a == nil {
			return false
		}
		v := []int{120, 127, 128, -1, 255, 256, 376}[r.Intn(7)]
		if a.CCNeg != nil && r.Chance(0.5) {
			a.CCNeg = ip(v)
		} else {
			a.CC = ip(v)
		}
		return true
	})},
	{"out-of-range key channel offset", descEdit(func(r *simrt.Rng, d *model.Desc) bool {
		k := firstKey(d)
		if k == nil {
			return false
		}
		k.HasOff, k.Offset = true, []int{16, -1, 255, 256, 100}[r.Intn(5)]
		return true
	})},
	{"out-of-range analog channel offset", descEdit(func(r *simrt.Rng, d *model.Desc) bool {
		a := axisOfType(d, "", func(a *model.AxisDesc) bool { return a.Type != "action" })
		if a == nil {
			return false
		}
		v := []int{16, -1, 255, 256, 272}[r.Intn(5)]
		if r.Chance(0.5) {
			a.HasOff, a.Off = true, v
		} else {
			a.HasOffNeg, a.OffNeg = true, v
		}
		return true
	})},
	{"out-of-range velocity", descEdit(func(r *simrt.Rng, d *model.Desc) bool {
		d.HasVel, d.Velocity = true, []int{128, -1, 255, 256, 1000}[r.Intn(5)]
		return true
	})},
	{"out-of-range default channel", descEdit(func(r *simrt.Rng, d *model.Desc) bool {
		d.HasChan, d.Channel = true, []int{0, 17, -1, 255, 256, 32}[r.Intn(6)]
		return true
	})},
	{"default mapping that does not exist", descEdit(func(r *simrt.Rng, d *model.Desc) bool {
		d.Mapping = []string{"Nope", "", "m0", "M0 "}[r.Intn(4)]
		return true
	})},
	// what a file states twice it cannot state exactly: the accepted configuration would have to drop one of the two
	{"the same sub-handler in two key blocks of one mapping", descEdit(func(r *simrt.Rng, d *model.Desc) bool {
		m := &d.Mappings[r.Intn(len(d.Mappings))]
		if len(m.Keys) == 0 || len(m.Keys[0].Keys) == 0 {
			return false
		}
		dup := model.SubKeys{Sub: m.Keys[0].Sub, Keys: []model.KeyDesc{{Name: "KEY_KP5", Code: keyCode("KEY_KP5"), Note: 61, NoteText: "61"}}}
		m.Keys = append(m.Keys, dup)
		return true
	})},
	{"the same sub-handler in two analog blocks of one mapping", descEdit(func(r *simrt.Rng, d *model.Desc) bool {
		for mi := range d.Mappings {
			m := &d.Mappings[mi]
			if len(m.Analog) > 0 && len(m.Analog[0].Axes) > 0 {
				m.Analog = append(m.Analog, model.SubAnalog{Sub: m.Analog[0].Sub, Axes: []model.AxisDesc{{Name: "ABS_MISC", Code: absCode("ABS_MISC"), Type: "cc", CC: ip(7)}}})
				return true
			}
		}
		return false
	})},
	{"the same key under two spellings", descEdit(func(r *simrt.Rng, d *model.Desc) bool {
		k := firstKey(d)
		if k == nil || strings.HasPrefix(k.Name, "x") {
			return false
		}
		for mi := range d.Mappings {
			for si := range d.Mappings[mi].Keys {
				sk := &d.Mappings[mi].Keys[si]
				for _, kk := range sk.Keys {
					if kk.Code == k.Code && kk.Name == k.Name {
						sk.Keys = append(sk.Keys, model.KeyDesc{Name: fmt.Sprintf("x%x", k.Code), Code: k.Code, Note: (k.Note + 1) % 128, NoteText: fmt.Sprint((k.Note + 1) % 128)})
						return true
					}
				}
			}
		}
		return false
	})},
	{"colour outside 24 bits", descEdit(func(r *simrt.Rng, d *model.Desc) bool {
		names := []string{"white", "black", "c", "unavailable", "other", "active", "active_external"}
		d.Colors[names[r.Intn(len(names))]] = []int{0x1000000, 0x1ff0000, -1, 1 << 32}[r.Intn(4)]
		return true
	})},
	{"default octave or semitone the device cannot hold", descEdit(func(r *simrt.Rng, d *model.Desc) bool {
		if r.Chance(0.5) {
			d.Octave = []int{128, 256, -129, 1000}[r.Intn(4)]
		} else {
			d.Semitone = []int{128, 130, -129, 100000}[r.Intn(4)]
		}
		return true
	})},
}

const hangMarker = "HANG: LoadDeviceConfigs did not return within 20 s of wall-clock time"

func loadAll(fsys *simfs.FS) (cfgs config.DeviceConfigs, err error, pv interface{}, stack string) {
	simfs.Attach(fsys)
	defer simfs.Attach(nil)
	hung := guarded(20*time.Second, func() {
		defer func() {
			if r := recover(); r != nil {
				pv = r
				stack = trimStack(fmt.Sprint(r) + "\n" + string(debugStack()))
			}
		}()
		var wg sync.WaitGroup
		cfgs, err = config.LoadDeviceConfigs(context.Background(), &wg)
	})
	if hung {
		pv, stack = hangMarker, ""
	}
	return
}

func newTreeFS() *simfs.FS {
	f := simfs.New()
	f.NoGates = true
	for _, d := range fourDirs {
		f.PutDir(d)
	}
	return f
}

// ---------------------------------------------------------------- C10

func runW4C10(t *testing.T, job *Job, seed uint64, rp *Replay) RunOut {
	ro := RunOut{Faults: map[string]int{}, Probes: map[string]int{}, Policy: "sequential", Nontriv: true}
	r := simrt.NewRng(seed, "workload")
	fsys := newTreeFS()
	type item struct {
		name    string
		text    string
		id      input.InputID
		valid   bool
		inv     string
		want    map[string]string
		dir     string
		classKb bool
	}
	var items []item
	mk := func(d *model.Desc, text string, valid bool, inv string) {
		dir := []string{dirUK, dirUG, dirFK, dirFG}[r.Intn(4)]
		it := item{name: fmt.Sprintf("cfg%d.toml", len(items)), text: text, valid: valid, inv: inv, dir: dir,
			id: input.InputID{Bus: d.ID[0], Vendor: d.ID[1], Product: d.ID[2], Version: d.ID[3]}}
		if valid {
			it.want = d.Expectation()
		}
		items = append(items, it)
		fsys.Put(dir+"/"+it.name, []byte(text))
	}
	if rp != nil && rp.Override && len(rp.Ops) > 0 {
		ro.Infra = "C10 replays re-run the seed (no override format)"
	}
	axisPick = r
	d := richDesc(r, 0)
	mk(d, d.TOML(), true, "")
	n := 4
	for i := 0; i < n; i++ {
		iv := invalidations[r.Intn(len(invalidations))]
		d2 := richDesc(r, i+1)
		text, ok := iv.apply(r, d2, d2.TOML())
		if !ok {
			continue
		}
		mk(d2, text, false, iv.name)
	}
	cfgs, err, pv, stack := loadAll(fsys)
	ro.Steps = len(items)
	ro.Hash = hashStr(items[0].text)
	ro.Sample = fmt.Sprintf("seed=%d valid=%dB invalidations=%v", seed, len(items[0].text), func() []string {
		var s []string
		for _, it := range items[1:] {
			s = append(s, it.inv)
		}
		return s
	}())
	fail := func(clause, detail string, it item) RunOut {
		ro.Vio = &Vio{Props: []string{"C10"}, Clause: clause, Detail: detail}
		ro.Replay = &Replay{World: "W4C10", Prop: "C10", Seed: seed, Tier: job.Tier, Config: it.text}
		return ro
	}
	if pv != nil {
		ro.Vio = &Vio{Props: []string{"C09", "C10"}, Clause: "loader_panic", Detail: fmt.Sprintf("LoadDeviceConfigs panicked: %v %s", pv, stack)}
		ro.Replay = &Replay{World: "W4C10", Prop: "C10", Seed: seed, Tier: job.Tier}
		return ro
	}
	if err != nil {
		return fail("loader_error", "LoadDeviceConfigs failed on a tree with all four directories present: "+err.Error(), items[0])
	}
	find := func(it item) (config.DeviceConfig, bool) {
		var m config.ConfigMap
		switch it.dir {
		case dirUK:
			m = cfgs.User.Keyboards
		case dirUG:
			m = cfgs.User.Gamepads
		case dirFK:
			m = cfgs.Factory.Keyboards
		default:
			m = cfgs.Factory.Gamepads
		}
		c, ok := m[it.id]
		if ok && c.ConfigFile != it.name {
			return c, false
		}
		return c, ok
	}
	for _, it := range items {
		c, ok := find(it)
		if it.valid {
			if !ok {
				_, perr := config.ParseData([]byte(it.text))
				return fail("valid_config_rejected", fmt.Sprintf("a configuration using only documented features was not loaded (%v)", perr), it)
			}
			if diff := model.DiffProjection(it.want, projectConfig(c.Config)); diff != "" {
				return fail("config_differs_from_file", diff, it)
			}
			ro.Probes["accepted_and_equal"]++
		} else {
			if ok {
				return fail("invalid_config_accepted", fmt.Sprintf("a file with %s was accepted", it.inv), it)
			}
			ro.Probes["rejected: "+it.inv]++
		}
	}
	return ro
}

func hashStr(s string) uint64 {
	h := uint64(14695981039346656037)
	for i := 0; i < len(s); i++ {
		h = (h ^ uint64(s[i])) * 1099511628211
	}
	return h
}

// ---------------------------------------------------------------- C12

type w4File struct {
	Dir   string `json:"dir"`
	Name  string `json:"name"`
	Kind  string `json:"kind"` // exact | default | other | broken | nontoml
	Fault string `json:"fault,omitempty"`
	Link  bool   `json:"link,omitempty"` // a symbolic link to a file outside the tree
}

type w4Tree struct {
	Files      []w4File `json:"files"`
	MissingDir string   `json:"missing_dir,omitempty"`
	// LinkedDir: this configuration directory is a symbolic link to a directory kept elsewhere (dotfiles): neither
	// missing nor unreadable, so its files count
	LinkedDir string `json:"linked_dir,omitempty"`
	DirFault   string   `json:"dir_fault,omitempty"` // directory that cannot be read
	// how: "" = listing it fails with EACCES; "stat-eacces" / "stat-eio" = already its lstat fails (the walk is then
	// handed an error without a FileInfo, and the error is not "does not exist")
	DirFaultHow string `json:"dir_fault_how,omitempty"`
}

func runW4C12(t *testing.T, job *Job, seed uint64, rp *Replay) RunOut {
	ro := RunOut{Faults: map[string]int{}, Probes: map[string]int{}, Policy: "sequential", Nontriv: true}
	r := simrt.NewRng(seed, "workload")
	devID := input.InputID{Bus: 3, Vendor: 0x1111, Product: 0x2222, Version: 0x0101}
	otherID := input.InputID{Bus: 3, Vendor: 0x3333, Product: 0x4444, Version: 1}
	var tr w4Tree
	if rp != nil && rp.Override && len(rp.Ops) > 0 {
		if err := json.Unmarshal(rp.Ops, &tr); err != nil {
			ro.Infra = "bad replay ops"
			return ro
		}
	} else {
		for _, dir := range fourDirs {
			sub := ""
			if r.Chance(0.15) {
				sub = "/nested/deeper"
			}
			if r.Chance(0.5) {
				tr.Files = append(tr.Files, w4File{Dir: dir + sub, Name: []string{"exact.toml", "My Device.TOML", "exact.Toml"}[r.Intn(3)], Kind: "exact"})
			}
			if r.Chance(0.5) {
				tr.Files = append(tr.Files, w4File{Dir: dir, Name: []string{"0_default.toml", "zz_default.toml"}[r.Intn(2)], Kind: "default"})
			}
			if r.Chance(0.4) {
				tr.Files = append(tr.Files, w4File{Dir: dir, Name: "other device.toml", Kind: "other"})
			}
			for i := 0; i < r.Intn(3); i++ {
				tr.Files = append(tr.Files, w4File{Dir: dir, Name: fmt.Sprintf("broken%d.toml", i), Kind: "broken"})
			}
			if r.Chance(0.4) {
				tr.Files = append(tr.Files, w4File{Dir: dir, Name: []string{"README", "notes.txt", "x.toml.bak", "config.tomlx", ".placeholder"}[r.Intn(5)], Kind: "nontoml"})
			}
		}
		// faults: unreadable files, a missing or unreadable directory
		for i := range tr.Files {
			if r.Chance(0.08) {
				tr.Files[i].Fault = []string{"eacces", "eio"}[r.Intn(2)]
			} else if r.Chance(0.08) {
				tr.Files[i].Link = true
			}
		}
		switch r.Pick(8, 1, 1, 1) {
		case 3:
			tr.LinkedDir = fourDirs[r.Intn(4)]
		case 1:
			tr.MissingDir = fourDirs[r.Intn(4)]
		case 2:
			tr.DirFault = fourDirs[r.Intn(4)]
			tr.DirFaultHow = []string{"", "", "stat-eacces", "stat-eio"}[r.Intn(4)]
		}
	}
	fsys := newTreeFS()
	render := func(kind string, marker int) []byte {
		d := baseDesc(simrt.NewRng(seed+uint64(marker), "cfg"), genOpts{nKeys: [2]int{1, 3}, nMaps: [2]int{1, 1}, notePool: []int{60, 62}, exitLen: -1, handlers: 1})
		switch kind {
		case "exact":
			d.ID = [4]uint16{devID.Bus, devID.Vendor, devID.Product, devID.Version}
		case "other":
			d.ID = [4]uint16{otherID.Bus, otherID.Vendor, otherID.Product, otherID.Version}
		case "broken":
			d.ID = [4]uint16{devID.Bus, devID.Vendor, devID.Product, devID.Version}
			switch marker % 8 {
			case 6:
				// ... and one on which it panics with a plain string rather than an error value
				t := d.TOML()
				return []byte(strings.Replace(t, "octave = ", "octave = 1979-05-27 #", 1))
			case 7:
				t := d.TOML()
				return []byte(strings.Replace(t, "semitone = ", "semitone = 07:32:00 #", 1))
			case 4:
				// a document on which go-toml v2.0.3 panics instead of returning an error
				t := d.TOML()
				return []byte(strings.Replace(t, "octave = ", "octave = { type = \"action\" } #", 1))
			case 5:
				t := d.TOML()
				return []byte(strings.Replace(t, "velocity = ", "velocity = [1, 2] #", 1))
			case 0:
				return []byte("collision_mode = \n[[[")
			case 1:
				d.Mode = "maybe"
			case 2:
				d.Mapping = "nope"
			case 3:
				return []byte(d.TOML()[:40])
			}
		case "nontoml":
			d.ID = [4]uint16{devID.Bus, devID.Vendor, devID.Product, devID.Version}
		}
		return []byte(d.TOML())
	}
	missing := func(p string) bool {
		return tr.MissingDir != "" && (p == tr.MissingDir || strings.HasPrefix(p, tr.MissingDir+"/"))
	}
	// the files of a linked directory live at the real place
	linkedReal := "/home/user/dotfiles/hidi-dirs/" + strings.ReplaceAll(tr.LinkedDir, "/", "_")
	at := func(dir string) string {
		if tr.LinkedDir != "" && (dir == tr.LinkedDir || strings.HasPrefix(dir, tr.LinkedDir+"/")) {
			return linkedReal + strings.TrimPrefix(dir, tr.LinkedDir)
		}
		return dir
	}
	for i, f := range tr.Files {
		if missing(f.Dir) {
			continue
		}
		f.Dir = at(f.Dir)
		if f.Link {
			// the user keeps the file elsewhere and links it into the configuration directory
			target := fmt.Sprintf("/home/user/dotfiles/hidi/%d-%s", i, f.Name)
			fsys.Put(target, render(f.Kind, i))
			fsys.PutSymlink(f.Dir+"/"+f.Name, target)
			ro.Faults["symlinked_file"]++
			continue
		}
		fsys.Put(f.Dir+"/"+f.Name, render(f.Kind, i))
		if f.Fault != "" {
			fsys.Faults = append(fsys.Faults, &simfs.Fault{Path: f.Dir + "/" + f.Name, Kinds: []string{"open", "read"}, What: f.Fault})
			ro.Faults["file_"+f.Fault]++
		}
	}
	if tr.MissingDir != "" {
		fsys.Delete(tr.MissingDir)
		ro.Faults["missing_directory"]++
	}
	if tr.LinkedDir != "" {
		fsys.Delete(tr.LinkedDir)
		fsys.PutDir(linkedReal)
		fsys.PutSymlink(tr.LinkedDir, linkedReal)
		ro.Faults["symlinked_directory"]++
	}
	if tr.DirFault != "" {
		switch tr.DirFaultHow {
		case "stat-eacces", "stat-eio":
			fsys.Faults = append(fsys.Faults, &simfs.Fault{Path: tr.DirFault, Kinds: []string{"stat"}, What: strings.TrimPrefix(tr.DirFaultHow, "stat-")})
			ro.Faults["directory_lstat_fails"]++
		default:
			fsys.Faults = append(fsys.Faults, &simfs.Fault{Path: tr.DirFault, Kinds: []string{"readdir"}, What: "eacces"})
			ro.Faults["unreadable_directory"]++
		}
	}
	cfgs, err, pv, stack := loadAll(fsys)
	b, _ := json.Marshal(&tr)
	ro.Steps = 1
	ro.Hash = hashStr(string(b))
	ro.Sample = fmt.Sprintf("seed=%d tree=%s", seed, shorten(string(b), 600))
	fail := func(clause, detail string) RunOut {
		ro.Vio = &Vio{Props: []string{"C12"}, Clause: clause, Detail: detail}
		ro.Replay = &Replay{World: "W4C12", Prop: "C12", Seed: seed, Tier: job.Tier, Ops: b, Override: true, Config: string(b)}
		return ro
	}
	if pv != nil {
		return fail("loader_panic", fmt.Sprintf("LoadDeviceConfigs panicked: %v %s", pv, stack))
	}
	if err != nil {
		if tr.MissingDir == "" && tr.DirFault == "" {
			return fail("loader_error", "LoadDeviceConfigs failed although all four directories exist and are readable: "+err.Error())
		}
		ro.Probes["directory_problem_reported_as_error"]++
		return ro
	}
	if tr.MissingDir != "" || tr.DirFault != "" {
		ro.Probes["directory_problem_counted_as_empty"]++
	}
	// reference precedence over what is present, readable and valid
	usable := func(dir, kind string) (string, bool) {
		if tr.DirFault != "" && dir == tr.DirFault {
			return "", false
		}
		for _, f := range tr.Files {
			base := f.Dir
			if i := strings.Index(base, "/nested"); i >= 0 {
				base = base[:i]
			}
			if base == dir && f.Kind == kind && f.Fault == "" && !missing(f.Dir) {
				return f.Name, true
			}
		}
		return "", false
	}
	for _, tc := range []struct {
		typ    input.DeviceType
		ud, fd string
	}{{input.KeyboardDevice, dirUK, dirFK}, {input.JoystickDevice, dirUG, dirFG}, {input.MouseDevice, "", ""}, {input.UnknownDevice, "", ""}} {
		got, ferr := cfgs.FindConfig(devID, tc.typ)
		if tc.ud == "" {
			if ferr == nil {
				return fail("unsupported_type_gets_config", fmt.Sprintf("device type %v got configuration %s", tc.typ, got.ConfigFile))
			}
			continue
		}
		wantName, wantType, found := "", "", false
		for _, c := range []struct{ dir, kind, typ string }{{tc.ud, "exact", "user"}, {tc.ud, "default", "user"}, {tc.fd, "exact", "factory"}, {tc.fd, "default", "factory"}} {
			if n, ok := usable(c.dir, c.kind); ok {
				wantName, wantType, found = n, c.typ, true
				break
			}
		}
		if !found {
			if ferr == nil {
				return fail("config_from_nowhere", fmt.Sprintf("%v: no candidate exists, FindConfig returned %s (%s)", tc.typ, got.ConfigFile, got.ConfigType))
			}
			ro.Probes["no_candidate_error"]++
			continue
		}
		if ferr != nil {
			return fail("candidate_not_found", fmt.Sprintf("%v: expected %s (%s), FindConfig returned error %v", tc.typ, wantName, wantType, ferr))
		}
		if got.ConfigFile != wantName || got.ConfigType != wantType {
			return fail("wrong_precedence", fmt.Sprintf("%v: expected %s (%s), FindConfig returned %s (%s)", tc.typ, wantName, wantType, got.ConfigFile, got.ConfigType))
		}
		ro.Probes["precedence_"+wantType]++
	}
	return ro
}

// ---------------------------------------------------------------- C09 (device configuration part)

func runW4C09(t *testing.T, job *Job, seed uint64, rp *Replay) RunOut {
	ro := RunOut{Faults: map[string]int{}, Probes: map[string]int{}, Policy: "sequential", Nontriv: true}
	r := simrt.NewRng(seed, "workload")
	var contents [][]byte
	var notes []string
	if rp != nil && rp.Override && len(rp.Ops) > 0 {
		var raw []byte // base64 in the replay file: contents are arbitrary bytes
		json.Unmarshal(rp.Ops, &raw)
		contents = [][]byte{raw}
		notes = []string{"replay"}
	} else {
		n := r.Range(1, 5)
		for i := 0; i < n; i++ {
			d := richDesc(r, i)
			text := d.TOML()
			var log []string
			text, log = model.MutateTOML(r, text, r.Range(1, 6))
			// what editors on other systems leave in a file
			switch r.Intn(8) {
			case 0:
				text = "\xEF\xBB\xBF" + text // UTF-8 byte order mark
				log = append(log, "BOM")
			case 1:
				text = strings.ReplaceAll(text, "\n", "\r\n")
				log = append(log, "CRLF")
			case 2:
				text = "\xEF\xBB\xBF" + strings.ReplaceAll(text, "\n", "\r\n")
				log = append(log, "BOM+CRLF")
			}
			data := []byte(text)
			fault := ""
			if r.Chance(0.3) {
				data, fault = model.StorageFault(r, data)
				ro.Faults["storage_"+strings.Fields(fault)[0]]++
			} else if r.Chance(0.1) {
				// an interrupted save that got only the first few bytes out
				n := r.Intn(9)
				if n < len(data) {
					data = data[:n]
				}
				fault = fmt.Sprintf("first %d bytes only", n)
				ro.Faults["storage_first_bytes"]++
			}
			if r.Chance(0.06) {
				// a file of a particular size (a long comment at its end): page, buffer and 64 KiB boundaries
				target := []int{4096, 32768, 65535, 65536, 65537, 131072}[r.Intn(6)]
				if pad := target - len(data) - 3; pad > 0 {
					data = append(append(data, []byte("\n# ")...), append([]byte(strings.Repeat("x", pad-1)), '\n')...)
					log = append(log, fmt.Sprintf("padded to %d bytes", len(data)))
					ro.Faults["file_of_boundary_size"]++
				}
			}
			contents = append(contents, data)
			notes = append(notes, fmt.Sprintf("edits=%v fault=%q", log, fault))
		}
	}
	fsys := newTreeFS()
	for i, c := range contents {
		fsys.Put(fmt.Sprintf("%s/file%d.toml", fourDirs[i%4], i), c)
	}
	_, _, pv, stack := loadAll(fsys)
	ro.Steps = len(contents)
	ro.Hash = hashStr(string(contents[0]))
	ro.Sample = fmt.Sprintf("seed=%d files=%d first: %s content=%q", seed, len(contents), shorten(notes[0], 300), shorten(string(contents[0]), 160))
	if pv == hangMarker {
		b, _ := json.Marshal(contents[0])
		ro.Vio = &Vio{Props: []string{"C09"}, Clause: "device_config_hang", Detail: fmt.Sprintf("%s; files: %v", hangMarker, notes)}
		ro.Replay = &Replay{World: "W4C09", Prop: "C09", Seed: seed, Tier: job.Tier, Ops: b, Override: len(contents) == 1, Config: string(contents[0])}
		ro.Replay.Script = nil
		return ro
	}
	if pv != nil {
		// which file?
		culprit := 0
		for i, c := range contents {
			one := newTreeFS()
			one.Put(dirUK+"/one.toml", c)
			if _, _, p2, _ := loadAll(one); p2 != nil {
				culprit = i
				break
			}
		}
		b, _ := json.Marshal(contents[culprit])
		ro.Vio = &Vio{Props: []string{"C09"}, Clause: "device_config_panic", Detail: fmt.Sprintf("LoadDeviceConfigs panicked: %v %s -- %s", pv, stack, shorten(notes[culprit], 500))}
		ro.Replay = &Replay{World: "W4C09", Prop: "C09", Seed: seed, Tier: job.Tier, Ops: b, Override: true, Config: string(contents[culprit])}
	}
	sort.Strings(notes)
	return ro
}
