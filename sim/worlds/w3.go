package worlds

import (
	"encoding/json"
	"fmt"
	"os"
	"sort"
	"strings"
	"sync"
	"testing"
	"time"

	"github.com/gethiox/HIDI/internal/pkg/input"
	"github.com/gethiox/HIDI/internal/pkg/logger"
	"github.com/gethiox/HIDI/internal/pkg/midi"
	"github.com/gethiox/HIDI/internal/pkg/midi/device"
	"github.com/gethiox/HIDI/internal/pkg/midi/device/config"
	"github.com/gethiox/HIDI/verifsim/model"
	"github.com/gethiox/HIDI/verifsim/simfs"
	"github.com/gethiox/HIDI/verifsim/simrt"
)

func init() {
	register("W3", runW3)
	shrinkers["W3"] = shrinkW3
}

func shrinkW3(raw json.RawMessage) []json.RawMessage {
	var o w3Ops
	if json.Unmarshal(raw, &o) != nil {
		return nil
	}
	var out []json.RawMessage
	clone := func() w3Ops {
		c := o
		c.Devs = nil
		for _, d := range o.Devs {
			d.Script = append([]model.Event(nil), d.Script...)
			c.Devs = append(c.Devs, d)
		}
		return c
	}
	// the configurations are derived from the seed per device index: only trailing devices can be dropped
	if len(o.Devs) > 1 {
		c := clone()
		c.Devs = c.Devs[:len(c.Devs)-1]
		out = append(out, mustJSON(c))
	}
	for di := range o.Devs {
		n := len(o.Devs[di].Script)
		for _, chunk := range []int{n / 2, n / 4, 1} {
			if chunk < 1 || chunk >= n+1 {
				continue
			}
			for at := 0; at+chunk <= n; at += chunk {
				c := clone()
				sc := c.Devs[di].Script
				c.Devs[di].Script = normaliseScript(append(append([]model.Event(nil), sc[:at]...), sc[at+chunk:]...))
				if len(c.Devs[di].Script) < n {
					out = append(out, mustJSON(c))
				}
				if len(out) > 60 {
					break
				}
			}
		}
	}
	zero := orgbFaults{}
	if o.Faults != zero {
		for _, f := range []func(*orgbFaults){
			func(f *orgbFaults) { f.RefuseDials = 0 }, func(f *orgbFaults) { f.DialDelayMs = 0 }, func(f *orgbFaults) { f.ReplyDelayUs = 0 },
			func(f *orgbFaults) { f.FrameDelayUs = 0 }, func(f *orgbFaults) { f.DropAfter = 0 }, func(f *orgbFaults) { f.DropAfterReqs = 0 },
		} {
			c := clone()
			before := c.Faults
			f(&c.Faults)
			if c.Faults != before {
				out = append(out, mustJSON(c))
			}
		}
	}
	if o.Decoys > 0 {
		c := clone()
		c.Decoys = 0
		out = append(out, mustJSON(c))
	}
	if o.SlowOut > 0 {
		c := clone()
		c.SlowOut = 0
		out = append(out, mustJSON(c))
	}
	return out
}

// W3: 1-3 real devices, each with MIDI-in traffic, the LED loop talking to a fake OpenRGB server over
// net.Pipe, a sysfs stub, a shared output channel; unplug at PRNG-chosen moments.

type w3Dev struct {
	Layout    []string      `json:"layout"`
	Script    []model.Event `json:"script"`
	NoServer  bool          `json:"no_server"`  // this device finds no controller (not listed)
	WrongType bool          `json:"wrong_type"` // its controller is not of type keyboard
	NoSysfs   bool          `json:"no_sysfs"`
	GapUs     []int         `json:"gap_us"` // C16: pauses between events, cycled
}

type w3Ops struct {
	Devs    []w3Dev    `json:"devs"`
	Faults  orgbFaults `json:"faults"`
	Decoys  int        `json:"decoys"`
	Lock    bool       `json:"lockstep"` // C17: lock-step with frame checks; C16: free running
	CapOut  int        `json:"cap_out"`
	SlowOut int        `json:"slow_out_us"`
	Solo    bool       `json:"solo_differential"`
	// SameChannel: the devices play on the same MIDI channel with the same notes and each has its own output
	// channel (so that outputs can still be told apart); otherwise they share one output channel and use
	// disjoint MIDI channels
	SameChannel bool `json:"same_channel"`
}

var ledNames []string

func allLedNames() []string {
	if ledNames == nil {
		for n := range device.LedNameToKey {
			ledNames = append(ledNames, n)
		}
		sort.Strings(ledNames)
	}
	return ledNames
}

func genLayout(r *simrt.Rng, d *model.Desc) []string {
	names := allLedNames()
	var out []string
	switch r.Pick(1, 2, 6) {
	case 0:
		return nil // a controller without LEDs
	case 1:
		// few LEDs
		for _, i := range r.Perm(len(names))[:r.Range(1, 8)] {
			out = append(out, names[i])
		}
	default:
		n := r.Range(20, len(names))
		for _, i := range r.Perm(len(names))[:n] {
			out = append(out, names[i])
		}
	}
	// make sure a good part of the configured keys have LEDs
	have := map[string]bool{}
	for _, n := range out {
		have[n] = true
	}
	add := func(code uint16) {
		if n, ok := device.KeyToLedName[evdevCode(code)]; ok && !have[n] && r.Chance(0.8) {
			have[n] = true
			out = append(out, n)
		}
	}
	for _, m := range d.Mappings {
		for _, sk := range m.Keys {
			for _, k := range sk.Keys {
				add(k.Code)
			}
		}
	}
	for _, a := range d.Actions {
		add(a.Code)
	}
	// unknown LED names (logo, strips)
	for i := 0; i < r.Intn(3); i++ {
		out = append(out, fmt.Sprintf("Logo %d", i))
	}
	// shuffle
	p := r.Perm(len(out))
	sh := make([]string, len(out))
	for i, j := range p {
		sh[i] = out[j]
	}
	return sh
}

func genW3(r *simrt.Rng, prop string, tier string) (*w3Ops, []*model.Desc) {
	o := &w3Ops{CapOut: []int{8, 8, 1, 0}[r.Intn(4)], Lock: prop == "C17"}
	nd := 1
	if prop == "C16" {
		nd = r.Range(1, 3)
		o.Solo = nd > 1 && r.Chance(0.5)
		if nd > 1 && r.Chance(0.4) {
			o.SameChannel = true
			o.Solo = true
		}
	}
	sharedNotes := []int{60, 62, 64, 65, 67}
	sharedMode := modes[r.Intn(4)]
	if r.Chance(0.3) {
		o.SlowOut = []int{50, 500, 3000}[r.Intn(3)]
	}
	o.Decoys = r.Intn(3)
	if r.Chance(0.5) {
		f := &o.Faults
		if r.Chance(0.4) {
			f.RefuseDials = r.Range(1, 6)
		}
		if r.Chance(0.3) {
			f.DialDelayMs = r.Range(1, 400)
		}
		if r.Chance(0.4) {
			f.ReplyDelayUs = []int{100, 5000, 100000, 300000}[r.Intn(4)]
		}
		if r.Chance(0.4) {
			f.FrameDelayUs = []int{100, 2000, 15000}[r.Intn(3)]
		}
		if prop == "C16" && r.Chance(0.25) {
			f.DropAfter = r.Range(1, 40)
		}
		if prop == "C16" && r.Chance(0.2) {
			f.DropAfterReqs = r.Range(1, 5)
		}
	}
	var descs []*model.Desc
	for i := 0; i < nd; i++ {
		acts := append([]string{}, transposeActions...)
		acts = append(acts, "panic")
		if r.Chance(0.5) {
			acts = append(acts, "multinote")
		}
		// distinct base notes: collisions are C03's business, here a key's highlight must be unambiguous
		pool := r.Perm(60)
		var notes []int
		for _, p := range pool[:14] {
			notes = append(notes, 30+p)
		}
		go1 := genOpts{nKeys: [2]int{3, 12}, nMaps: [2]int{1, 3}, notePool: notes, offsets: r.Chance(0.3), actions: acts, exitLen: -1, defaults: true,
			unmapProb: 0.3, remapProb: 0.3, handlers: 1}
		if prop == "C17" && r.Chance(0.3) {
			go1.handlers = 2 // some keys arrive on a second handler of the keyboard (media keys on "Consumer Control")
		}
		d := baseDesc(r, go1)
		uniqueNotes(d, r)
		if prop == "C17" && len(d.Mappings) >= 3 && r.Chance(0.3) {
			// two mappings with one name (the parser accepts that; mappings are told apart by their position, the
			// name only selects the default - which keeps a name of its own here)
			var others []int
			for mi := range d.Mappings {
				if d.Mappings[mi].Name != d.Mapping {
					others = append(others, mi)
				}
			}
			if len(others) >= 2 {
				d.Mappings[others[1]].Name = d.Mappings[others[0]].Name
			}
		}
		if prop == "C17" && r.Chance(0.3) {
			// a configuration shared by several keyboard models: a section for a sub-handler this keyboard does not
			// have gives the same keys other notes (another pitch class); it says nothing about this keyboard's LEDs
			for mi := range d.Mappings {
				if len(d.Mappings[mi].Keys) == 0 {
					continue
				}
				ghost := model.SubKeys{Sub: "Other Model"}
				for _, k := range d.Mappings[mi].Keys[0].Keys {
					k.Note = (k.Note + 1 + 2*r.Intn(3)) % 128
					k.NoteText = fmt.Sprint(k.Note)
					ghost.Keys = append(ghost.Keys, k)
				}
				d.Mappings[mi].Keys = append(d.Mappings[mi].Keys, ghost)
			}
		}
		if prop == "C16" {
			// devices of one run play on disjoint channels (cross-talk differential)
			d.Channel = 1 + i*5
			d.Actions = filterActions(d.Actions, "channel_up", "channel_down")
			stripOffsets(d)
			if o.SameChannel {
				// ... or on purpose on the same channel with the same few notes
				d.Channel = 3
				d.Mode = sharedMode
				d.Octave, d.Semitone = 0, 0
				d.Actions = filterActions(d.Actions, "octave_up", "octave_down", "semitone_up", "semitone_down")
				for mi := range d.Mappings {
					for si := range d.Mappings[mi].Keys {
						for ki := range d.Mappings[mi].Keys[si].Keys {
							k := &d.Mappings[mi].Keys[si].Keys[ki]
							k.Note = sharedNotes[r.Intn(len(sharedNotes))]
							k.NoteText = fmt.Sprint(k.Note)
						}
					}
				}
			}
		}
		if prop == "C17" && r.Chance(0.25) {
			// transposition-heavy profile: very low or very high base notes brought back into range by
			// large opposite octave / semitone excursions
			low := r.Chance(0.5)
			for mi := range d.Mappings {
				used := map[int]bool{}
				for si := range d.Mappings[mi].Keys {
					for ki := range d.Mappings[mi].Keys[si].Keys {
						k := &d.Mappings[mi].Keys[si].Keys[ki]
						n := r.Range(0, 14)
						if !low {
							n = r.Range(113, 127)
						}
						for used[n] {
							n = (n + 1) % 128
						}
						used[n] = true
						k.Note, k.NoteText = n, fmt.Sprint(n)
					}
				}
			}
			if low {
				d.Semitone, d.Octave = -r.Range(1, 30), r.Range(1, 3)
			} else {
				d.Semitone, d.Octave = r.Range(1, 30), -r.Range(1, 3)
			}
		}
		descs = append(descs, d)
		dv := w3Dev{Layout: genLayout(r, d)}
		if prop == "C16" {
			switch r.Pick(8, 1, 1, 1) {
			case 1:
				dv.NoServer = true
			case 2:
				dv.WrongType = true
			case 3:
				dv.NoSysfs = true
			}
		}
		g := newScriptGen(r, d)
		tap := func(action string, times int) {
			for _, ak := range d.Actions {
				if ak.Action == action {
					for k := 0; k < times; k++ {
						if g.pressAction(ak) {
							g.release(ak.Code)
						}
					}
				}
			}
		}
		if prop == "C17" {
			switch r.Pick(88, 6, 6) {
			case 1:
				// the same total transposition reached a second time with another octave / semitone split
				k := r.Range(1, 2)
				up, down := "octave_up", "semitone_down"
				if r.Chance(0.5) {
					up, down = "octave_down", "semitone_up"
				}
				if r.Chance(0.5) {
					tap(up, k)
					tap(down, 12*k)
				} else {
					tap(down, 12*k)
					tap(up, k)
				}
			case 2:
				// transposition far beyond the MIDI range (and back)
				dir := []string{"octave_up", "octave_down"}[r.Intn(2)]
				k := r.Range(9, 15)
				tap(dir, k)
				// ... with notes on MIDI input at the pitches the keys would have modulo 256
				for j := 0; j < 2 && len(g.noteK) > 0; j++ {
					off := 12 * k
					if dir == "octave_down" {
						off = -off
					}
					if w := (g.noteK[r.Intn(len(g.noteK))].Note + 12*d.Octave + d.Semitone + off) & 0xff; w < 128 {
						g.out = append(g.out, model.Event{Kind: "midiin", Bytes: []byte{0x90, byte(w), 100}, Value: 0xff})
					}
				}
				if r.Chance(0.5) {
					tap(partnerOf(dir), r.Range(1, k))
				}
			}
		}
		n := r.Range(4, 30)
		for j := 0; j < n; j++ {
			switch r.Pick(6, 4, 1) {
			case 0:
				g.steps(1, 5, 3, 2, false)
			case 1:
				ch := r.Range(0, 15)
				if r.Chance(0.5) {
					ch = -1 // current channel, resolved at run time by the harness
				}
				note := 0
				if len(g.noteK) > 0 && r.Chance(0.8) {
					note = g.noteK[r.Intn(len(g.noteK))].Note + 12*d.Octave + d.Semitone
				} else {
					note = r.Range(0, 127)
				}
				if note < 0 || note > 127 {
					note = 60
				}
				kind := r.Pick(5, 3, 2)
				st := byte(0x90)
				vel := byte(r.Range(1, 127))
				if kind == 1 {
					st = 0x80
					vel = 0
				}
				if kind == 2 {
					vel = 0 // note on with velocity 0
				}
				c := byte(0)
				if ch >= 0 {
					c = byte(ch)
				} else {
					c = 0xff
				}
				if r.Chance(0.12) {
					// not a note: controllers, pitch bend, programme change, clock - nothing to show, nothing to break
					other := [][]byte{{0xB0, byte(r.Range(0, 127)), byte(r.Range(0, 127))}, {0xE0, 0, 64}, {0xC0, 5}, {0xF8}, {0xB0, 123, 0}}
					g.out = append(g.out, model.Event{Kind: "midiin", Bytes: other[r.Intn(len(other))], Value: int32(c)})
					continue
				}
				g.out = append(g.out, model.Event{Kind: "midiin", Bytes: []byte{st, byte(note), vel}, Value: int32(c)})
			case 2:
				g.out = append(g.out, model.Event{Kind: "wait", Ms: r.Range(1, 60)})
			}
		}
		if r.Chance(0.6) {
			g.releaseAll()
		}
		dv.Script = g.out
		for k := 0; k < r.Range(1, 4); k++ {
			dv.GapUs = append(dv.GapUs, []int{0, 0, 100, 3000, 12000, 40000, 300000}[r.Intn(7)])
		}
		o.Devs = append(o.Devs, dv)
	}
	return o, descs
}

func filterActions(as []model.ActionKey, drop ...string) []model.ActionKey {
	var out []model.ActionKey
	for _, a := range as {
		keep := true
		for _, d := range drop {
			if a.Action == d {
				keep = false
			}
		}
		if keep {
			out = append(out, a)
		}
	}
	return out
}

func stripOffsets(d *model.Desc) {
	for mi := range d.Mappings {
		for si := range d.Mappings[mi].Keys {
			for ki := range d.Mappings[mi].Keys[si].Keys {
				k := &d.Mappings[mi].Keys[si].Keys[ki]
				k.Offset, k.HasOff = 0, false
			}
		}
	}
}

// uniqueNotes makes the base notes of one mapping pairwise distinct.
func uniqueNotes(d *model.Desc, r *simrt.Rng) {
	for mi := range d.Mappings {
		used := map[int]bool{}
		for si := range d.Mappings[mi].Keys {
			for ki := range d.Mappings[mi].Keys[si].Keys {
				k := &d.Mappings[mi].Keys[si].Keys[ki]
				for used[k.Note] {
					k.Note = 30 + r.Intn(70)
				}
				used[k.Note] = true
				k.NoteText = fmt.Sprint(k.Note)
			}
		}
	}
}

type w3DevState struct {
	idx       int
	d         *model.Desc
	m         *model.Dev
	ext       model.Ext
	pal       *model.Palette
	lay       *model.LedLayout
	ctrl      int // controller index at the server, -1 if none
	in        chan *input.InputEvent
	midiIn    chan midi.Event
	handlers  []input.Handler
	done      bool
	doneAt    time.Duration
	closedAt  time.Duration
	taskID    string
	out       [][]byte // this device's projection of the merged output (by channel)
	firstLate time.Duration
	took      time.Duration
	allow     time.Duration
}

type w3Result struct {
	vio     *Vio
	infra   string
	res     simrt.Result
	outs    [][][]byte
	frames  int
	fired   map[string]int
	probes  map[string]int
	checked int
}

func execW3(t *testing.T, seed uint64, prop string, ops *w3Ops, descs []*model.Desc, cfgs []config.Config, only int) w3Result {
	noShuffle := ops.Solo
	var wr w3Result
	wr.probes = map[string]int{}
	scfg, _ := schedConfig(seed, simrt.NewRng(seed, "schedcfg"))
	if noShuffle {
		// the differential compares message sequences: the order of the clean-up Note Offs follows the map
		// order, which is left canonical in these runs
		scfg.ShuffleMaps = false
	}
	fsys := simfs.New()
	// the server lists decoys first, then one controller per device
	var ctrls []orgbController
	for i := 0; i < ops.Decoys; i++ {
		c := orgbController{Type: []uint32{5, 0, 3}[i%3], Name: fmt.Sprintf("Decoy %d", i), Location: fmt.Sprintf("HID: /dev/hidraw%d", 40+i), LEDs: []string{"Key: A", "Key: B"}}
		if i%3 == 1 {
			c.Location = "I2C: /dev/i2c-4, address 0x58"
		}
		sysfsFor(fsys, fmt.Sprintf("hidraw%d", 40+i), 90+i, fmt.Sprintf("event%d", 200+i))
		ctrls = append(ctrls, c)
	}
	states := make([]*w3DevState, len(ops.Devs))
	for i, dv := range ops.Devs {
		st := &w3DevState{idx: i, d: descs[i], ctrl: -1, ext: model.Ext{}, pal: model.NewPalette()}
		states[i] = st
		if only >= 0 && only != i {
			continue
		}
		if !dv.NoServer {
			c := orgbController{Type: 5, Name: fmt.Sprintf("Sim Keyboard %d", i), Location: fmt.Sprintf("HID: /dev/hidraw%d", i), LEDs: dv.Layout}
			if dv.WrongType {
				c.Type = 2
			}
			st.ctrl = len(ctrls)
			ctrls = append(ctrls, c)
			if !dv.NoSysfs {
				sysfsFor(fsys, fmt.Sprintf("hidraw%d", i), 10+i, fmt.Sprintf("event%d", i*8))
			}
		}
		lay := &model.LedLayout{Names: dv.Layout}
		for _, n := range dv.Layout {
			code, ok := device.LedNameToKey[n]
			lay.Codes = append(lay.Codes, uint16(code))
			lay.Known = append(lay.Known, ok)
		}
		st.lay = lay
	}
	srv := newOrgbServer(ctrls, ops.Faults)
	wr.outs = make([][][]byte, len(ops.Devs))
	wr.res = simrt.Run(t, scfg, func() {
		logger.Messages = make(chan []byte, 1024)
		stop := make(chan struct{})
		go func() {
			for {
				select {
				case <-logger.Messages:
				case <-stop:
					return
				}
			}
		}()
		defer close(stop)
		simfs.Attach(fsys)
		defer simfs.Attach(nil)
		dialer = srv.dial
		defer func() { dialer = nil }()
		out := make(chan midi.Event, ops.CapOut)
		outs := make([]chan midi.Event, len(states))
		sigs := make(chan os.Signal, 4)
		var mu sync.Mutex
		if ops.SameChannel {
			for i := range outs {
				i := i
				outs[i] = make(chan midi.Event, ops.CapOut)
				simrt.Go(fmt.Sprintf("collector%d", i), func() {
					for {
						ev, ok := simrt.Recv(outs[i])
						if !ok {
							return
						}
						mu.Lock()
						states[i].out = append(states[i].out, append([]byte(nil), ev...))
						mu.Unlock()
						if ops.SlowOut > 0 {
							simrt.Sleep(time.Duration(ops.SlowOut) * time.Microsecond)
						}
					}
				})
			}
		}
		// merged output: attribute by channel (devices of a C16 run use disjoint channels)
		simrt.Go("collector", func() {
			for {
				ev, ok := simrt.Recv(out)
				if !ok {
					return
				}
				b := append([]byte(nil), ev...)
				mu.Lock()
				owner := 0
				if len(states) > 1 && len(b) > 0 {
					ch := int(b[0]&0x0f) + 1
					owner = (ch - 1) / 5
					if owner >= len(states) {
						owner = len(states) - 1
					}
				}
				states[owner].out = append(states[owner].out, b)
				mu.Unlock()
				if ops.SlowOut > 0 {
					simrt.Sleep(time.Duration(ops.SlowOut) * time.Microsecond)
				}
			}
		})
		fail := func(st *w3DevState, step int, v *model.Violation) {
			mu.Lock()
			if wr.vio == nil {
				wr.vio = &Vio{Props: v.Props, Clause: v.Clause, Detail: fmt.Sprintf("device %d: %s", st.idx, v.Detail), Step: step}
				bb, _ := json.Marshal(ops)
				notePending(wr.vio, &Replay{World: "W3", Prop: prop, Seed: seed, Ops: bb, Override: true})
			}
			mu.Unlock()
		}
		var wg sync.WaitGroup
		active := 0
		for i := range ops.Devs {
			if only >= 0 && only != i {
				continue
			}
			st := states[i]
			dv := ops.Devs[i]
			inDev, handlers := simInputDevice(st.d, i)
			st.handlers = handlers
			st.in = make(chan *input.InputEvent, 8)
			st.midiIn = make(chan midi.Event, 8)
			st.m = model.NewDev(st.d)
			devOut := out
			if ops.SameChannel {
				devOut = outs[i]
			}
			dev := device.NewDevice(inDev, config.DeviceConfig{ConfigFile: "sim.toml", ConfigType: "user", Config: cfgs[i]}, devOut, st.midiIn, true, 6742, sigs)
			simrt.Go(fmt.Sprintf("device%d", i), func() {
				mu.Lock()
				st.taskID = simrt.SelfID()
				mu.Unlock()
				dev.ProcessEvents(st.in)
				mu.Lock()
				st.done = true
				st.doneAt = simrt.Now()
				mu.Unlock()
			})
			active++
			wg.Add(1)
			// driver task of this device
			simrt.Go(fmt.Sprintf("driver%d", i), func() {
				defer wg.Done()
				w3Drive(st, dv, ops, srv, &mu, fail, &wr)
			})
		}
		// wait for all drivers
		simrt.Yield("h.waitdrivers")
		wg.Wait()
		simrt.Yield("h.drivers-done")
		simrt.WaitIdle()
		// promptness: 2 simulated seconds plus the injected peer delays; a slow shared MIDI consumer delays
		// everybody by its service time for every message of the run
		mu.Lock()
		total := 0
		for _, st := range states {
			total += len(st.out)
		}
		mu.Unlock()
		for _, st := range states {
			if st.m == nil || !st.done {
				continue
			}
			allow := st.allow + time.Duration(ops.SlowOut*total)*time.Microsecond
			if st.took > allow {
				fail(st, -1, &model.Violation{Props: []string{"C16"}, Clause: "termination_not_prompt", Detail: fmt.Sprintf("ProcessEvents returned %v after its event stream ended (allowed %v with the injected delays)", st.took, allow)})
			}
		}
		simrt.Close(out)
		if ops.SameChannel {
			for i := range outs {
				simrt.Close(outs[i])
			}
		}
		srv.closeAll()
		simrt.WaitIdle()
	})
	for i, st := range states {
		wr.outs[i] = st.out
	}
	wr.fired = srv.Fired
	for _, p := range wr.res.Panics {
		if strings.Contains(p.Value, "SIMGEN-UNSUPPORTED") {
			wr.infra = p.Value
		} else if wr.vio == nil {
			props := []string{"C16"}
			if strings.Contains(p.Stack, "handleOpenrgb") {
				props = []string{"C17", "C16"}
			}
			wr.vio = &Vio{Props: props, Clause: "panic", Detail: "panic in task " + p.Task + ": " + p.Value + "\n" + trimStack(p.Stack)}
		}
	}
	if wr.res.Stuck && wr.vio == nil {
		wr.infra = "run stuck: " + wr.res.StuckInfo
	}
	return wr
}

func trimStack(s string) string {
	lines := strings.Split(s, "\n")
	var out []string
	for _, l := range lines {
		if strings.Contains(l, "HIDI/internal") || strings.Contains(l, "panic") {
			out = append(out, strings.TrimSpace(l))
		}
		if len(out) > 12 {
			break
		}
	}
	return strings.Join(out, " | ")
}

// w3Drive feeds one device's script, checks LED frames (lock-step mode) and unplugs the device.
func w3Drive(st *w3DevState, dv w3Dev, ops *w3Ops, srv *orgbServer, mu *sync.Mutex, fail func(*w3DevState, int, *model.Violation), wr *w3Result) {
	ledPossible := st.ctrl >= 0 && !dv.WrongType && !dv.NoSysfs && ops.Faults.DropAfter == 0 && ops.Faults.DropAfterReqs == 0
	frameCount := func() int {
		_, n, _ := srv.lastFrameOf(st.ctrl)
		return n
	}
	waitFrames := func(n int, limit time.Duration) bool {
		start := frameCount()
		deadline := simrt.Now() + limit
		for frameCount() < start+n {
			if simrt.Now() > deadline {
				return false
			}
			simrt.Sleep(5 * time.Millisecond)
		}
		return true
	}
	connected := false
	if ops.Lock && ledPossible {
		// connection takes 2x250ms at least, plus refused dials and delays
		connected = waitFrames(1, 12*time.Second)
		if !connected {
			fail(st, -1, &model.Violation{Props: []string{"C17"}, Clause: "led_never_connected", Detail: fmt.Sprintf("no LED frame within 12 simulated seconds although the controller is listed and resolvable (faults %+v)", ops.Faults)})
			return
		}
	}
	failed := func() bool { mu.Lock(); defer mu.Unlock(); return wr.vio != nil }
	for i, ev := range dv.Script {
		if failed() {
			break
		}
		switch ev.Kind {
		case "key":
			simrt.Send(st.in, toInputEvent(st.handlers, ev))
			st.m.Predict(ev)
		case "midiin":
			b := append([]byte(nil), ev.Bytes...)
			ch := int(ev.Value)
			if ch == 0xff {
				ch = st.m.Ch - 1
			}
			if b[0] < 0xf0 {
				b[0] = b[0]&0xf0 | byte(ch&0x0f)
			}
			simrt.Send(st.midiIn, midi.Event(b))
			st.ext.Apply(b)
		case "wait":
			simrt.Sleep(time.Duration(ev.Ms) * time.Millisecond)
		}
		if ev.Kind == "key" && st.m.PanicSeen {
			// panic clears the external highlights
			if a, ok := actionOfDesc(st.d, ev.Code); ok && a == "panic" && ev.Value == 1 {
				for k := range st.ext {
					delete(st.ext, k)
				}
			}
		}
		if ops.Lock {
			simrt.WaitIdle()
			if connected {
				if !waitFrames(2, 3*time.Second) {
					fail(st, i, &model.Violation{Props: []string{"C17"}, Clause: "led_refresh_stopped", Detail: fmt.Sprintf("no two new LED frames within 3 simulated seconds after %s", ev)})
					break
				}
				f, _, ok := srv.lastFrameOf(st.ctrl)
				if ok {
					mu.Lock()
					wr.checked++
					mu.Unlock()
					if v := st.m.CheckFrame(st.lay, f.Colors, st.ext, st.pal); v != nil {
						v.Detail = fmt.Sprintf("after %s (octave %d semitone %d channel %d mapping %d): %s", ev, st.m.Oct, st.m.Semi, st.m.Ch, st.m.Map, v.Detail)
						fail(st, i, v)
						break
					}
				}
			}
		} else if len(dv.GapUs) > 0 {
			if g := dv.GapUs[i%len(dv.GapUs)]; g > 0 {
				simrt.Sleep(time.Duration(g) * time.Microsecond)
			}
		}
	}
	// unplug
	mu.Lock()
	st.closedAt = simrt.Now()
	stall0 := simrt.StallTotal()
	mu.Unlock()
	simrt.Close(st.in)
	// "promptly": one LED period plus what the peers were told to take (a connection attempt, one round of
	// controller queries, the frames in flight, the MIDI consumer) - never the 2 s / 5 s give-up timers
	nctrl := len(srv.Controllers) + 2
	allow := 150*time.Millisecond + time.Duration(ops.Faults.DialDelayMs)*time.Millisecond + time.Duration(nctrl)*time.Duration(ops.Faults.ReplyDelayUs)*time.Microsecond +
		4*time.Duration(ops.Faults.FrameDelayUs)*time.Microsecond + 20*time.Duration(ops.SlowOut)*time.Microsecond
	deadline := simrt.Now() + allow + 3*time.Second
	for {
		mu.Lock()
		d := st.done
		mu.Unlock()
		if d || simrt.Now() > deadline {
			break
		}
		simrt.Sleep(10 * time.Millisecond)
	}
	mu.Lock()
	d, took, tid := st.done, st.doneAt-st.closedAt, st.taskID
	mu.Unlock()
	// injected scheduler stalls ("the whole process was descheduled") are not the device's doing
	took -= simrt.StallTotal() - stall0
	if took < 0 {
		took = 0
	}
	if !d {
		fail(st, len(dv.Script), &model.Violation{Props: []string{"C16"}, Clause: "processing_does_not_end", Detail: fmt.Sprintf("ProcessEvents has not returned %v after its event stream ended (alive below it: %v)", simrt.Now()-st.closedAt, simrt.AliveUnder(tid))})
		simrt.Stop()
		return
	}
	mu.Lock()
	st.took, st.allow = took, allow
	mu.Unlock()
	simrt.WaitIdle()
	if alive := simrt.AliveUnder(tid); len(alive) > 0 {
		fail(st, len(dv.Script), &model.Violation{Props: []string{"C16"}, Clause: "background_activity_left", Detail: fmt.Sprintf("after ProcessEvents returned these goroutines it started are still alive: %v", alive)})
	}
	if ops.Lock && connected {
		f, _, ok := srv.lastFrameOf(st.ctrl)
		if ok {
			if v := model.CheckRed(f.Colors); v != nil {
				fail(st, len(dv.Script), v)
			}
		}
	}
}

func actionOfDesc(d *model.Desc, code uint16) (string, bool) {
	for _, a := range d.Actions {
		if a.Code == code {
			return a.Action, true
		}
	}
	return "", false
}

func runW3(t *testing.T, job *Job, seed uint64, rp *Replay) RunOut {
	ro := RunOut{Faults: map[string]int{}, Probes: map[string]int{}}
	r := simrt.NewRng(seed, "workload")
	ops, descs := genW3(r, job.Prop, job.Tier)
	if rp != nil && rp.Override && len(rp.Ops) > 0 {
		var o w3Ops
		if err := json.Unmarshal(rp.Ops, &o); err != nil {
			ro.Infra = "bad replay ops: " + err.Error()
			return ro
		}
		ops = &o
	}
	var cfgs []config.Config
	var tomls []string
	for _, d := range descs {
		tm := d.TOML()
		cfg, err := config.ParseData([]byte(tm))
		if err != nil {
			ro.Infra = fmt.Sprintf("generated configuration rejected by the parser: %v\n%s", err, tm)
			return ro
		}
		cfgs = append(cfgs, cfg)
		tomls = append(tomls, tm)
	}
	_, ro.Policy = schedConfig(seed, simrt.NewRng(seed, "schedcfg"))
	wr := execW3(t, seed, job.Prop, ops, descs, cfgs, -1)
	ro.Steps, ro.SimTime, ro.Hash, ro.Choices = wr.res.Steps, wr.res.SimTime, wr.res.SchedHash, wr.res.Choices
	ro.Nontriv = wr.res.Choices > 0
	addCounts(ro.Faults, wr.fired)
	ro.Probes["led_frames_checked"] += wr.checked
	for _, o := range wr.outs {
		ro.Messages += len(o)
	}
	for _, dv := range ops.Devs {
		ro.Faults["unplug"]++
		if dv.NoServer {
			ro.Faults["orgb_controller_missing"]++
		}
		if dv.WrongType {
			ro.Faults["orgb_wrong_type"]++
		}
		if dv.NoSysfs {
			ro.Faults["sysfs_entry_missing"]++
		}
	}
	if ops.SlowOut > 0 {
		ro.Faults["slow_midi_consumer"]++
	}
	ro.Infra = wr.infra
	vio := wr.vio
	// solo-vs-together differential (C16 cross-talk): device 0's projection must not depend on the others
	if vio == nil && ro.Infra == "" && ops.Solo && len(ops.Devs) > 1 && job.Prop == "C16" {
		solo := execW3(t, seed, job.Prop, ops, descs, cfgs, 0)
		ro.Probes["solo_differential_runs"]++
		if solo.infra == "" && solo.vio == nil {
			a, b := flat(wr.outs[0]), flat(solo.outs[0])
			if a != b {
				vio = &Vio{Props: []string{"C16"}, Clause: "cross_talk", Detail: fmt.Sprintf("device 0 emitted %q together with %d other devices but %q alone (same script, same seed)", a, len(ops.Devs)-1, b)}
			}
		}
	}
	b, _ := json.Marshal(ops)
	if vio != nil {
		ro.Vio = vio
		ro.Replay = &Replay{World: "W3", Prop: job.Prop, Seed: seed, Tier: job.Tier, Ops: b, Override: true, Trace: wr.res.Trace, Config: strings.Join(tomls, "\n#-----\n")}
	}
	ro.Sample = fmt.Sprintf("seed=%d devices=%d lockstep=%v faults=%+v decoys=%d script0=%s", seed, len(ops.Devs), ops.Lock, ops.Faults, ops.Decoys, briefScript(ops.Devs[0].Script, 10))
	return ro
}

func flat(ms [][]byte) string {
	var s []string
	for _, m := range ms {
		s = append(s, fmt.Sprintf("%x", m))
	}
	return strings.Join(s, " ")
}
