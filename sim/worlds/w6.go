package worlds

import (
	"encoding/json"
	"fmt"
	"sort"
	"strings"
	"testing"

	"github.com/gethiox/HIDI/internal/pkg/input"
	"github.com/gethiox/HIDI/verifsim/simrt"
	"github.com/holoplot/go-evdev"
)

func init() { register("W6", runW6) }

// W6: input.Normalize on generated handler multisets, in PRNG discovery orders and PRNG map iteration
// orders (the instrumented `range collection`). Handlers cannot be opened here, which the statement allows.

type w6Handler struct {
	Name  string `json:"name"`
	Phys  string `json:"phys"`
	Caps  []int  `json:"caps"`
	Event string `json:"event"`
	Prod  int    `json:"prod"`
	Uniq  string `json:"uniq,omitempty"`
}

var capRows = [][]evdev.EvType{
	{evdev.EV_SYN, evdev.EV_KEY, evdev.EV_MSC, evdev.EV_LED, evdev.EV_REP},                             // standard keyboard
	{evdev.EV_SYN, evdev.EV_KEY, evdev.EV_REL, evdev.EV_ABS, evdev.EV_MSC, evdev.EV_LED, evdev.EV_REP}, // keyboard with pointer
	{evdev.EV_SYN, evdev.EV_KEY, evdev.EV_MSC, evdev.EV_REP},                                           // NKRO
	{evdev.EV_SYN, evdev.EV_KEY, evdev.EV_REL, evdev.EV_MSC},                                           // mouse
	{evdev.EV_SYN, evdev.EV_KEY, evdev.EV_MSC},                                                         // system
	{evdev.EV_SYN, evdev.EV_KEY, evdev.EV_REL, evdev.EV_ABS, evdev.EV_MSC},                             // multimedia
	{evdev.EV_SYN, evdev.EV_KEY, evdev.EV_ABS},                                                         // gamepad
	{evdev.EV_SYN, evdev.EV_KEY, evdev.EV_ABS, evdev.EV_FF},                                            // gamepad with rumble
	{evdev.EV_SYN, evdev.EV_ABS, evdev.EV_MSC},                                                         // motion sensors
	{evdev.EV_SYN, evdev.EV_KEY},                                                                       // near miss
	{evdev.EV_SYN, evdev.EV_KEY, evdev.EV_MSC, evdev.EV_LED},                                           // near miss
	{evdev.EV_SYN, evdev.EV_SW},                                                                        // lid switch
	{},                                                                                                 // nothing
	{evdev.EV_SYN, evdev.EV_KEY, evdev.EV_MSC, evdev.EV_LED, evdev.EV_REP, evdev.EV_FF},                // superset with FF
}

func refType(hs []input.DeviceInfo) string {
	joy, kbd := false, false
	for i := range hs {
		switch hs[i].HandlerType() {
		case input.DI_TYPE_JOYSTICK:
			joy = true
		case input.DI_TYPE_STD_KBD:
			kbd = true
		}
	}
	switch {
	case joy:
		return "joystick"
	case kbd:
		return "keyboard"
	}
	return "not-playable"
}

func devTypeName(t input.DeviceType) string {
	switch t {
	case input.JoystickDevice:
		return "joystick"
	case input.KeyboardDevice:
		return "keyboard"
	}
	return "not-playable"
}

func runW6(t *testing.T, job *Job, seed uint64, rp *Replay) RunOut {
	ro := RunOut{Faults: map[string]int{}, Probes: map[string]int{}, Policy: "sequential", Nontriv: true}
	r := simrt.NewRng(seed, "workload")
	// a run is a short history of discovery rounds (the monitor calls Normalize again and again): later rounds
	// reuse event nodes of earlier ones for other handlers, as the kernel does after an unplug. Node numbers are
	// unique per seed, so that runs executed by one worker process share nothing.
	var rounds [][]w6Handler
	if rp != nil && rp.Override && len(rp.Ops) > 0 {
		json.Unmarshal(rp.Ops, &rounds)
	} else {
		nRounds := r.Pick(6, 3, 1) + 1
		// node numbers: unique per seed in most runs (runs executed by one worker process then share nothing); small
		// numbers that straddle a digit boundary (event8..event11, event97..event102) in the others
		evBase := seed * 64
		if r.Chance(0.3) {
			evBase = []uint64{0, 5, 8, 95, 98, 995}[r.Intn(6)]
		}
		for ri := 0; ri < nRounds; ri++ {
			var hs []w6Handler
			nPhys := r.Range(1, 5)
			n := r.Range(1, 12)
			if r.Chance(0.25) {
				// a hub full of devices discovered in one batch
				nPhys = r.Range(6, 24)
				n = r.Range(nPhys, 3*nPhys)
			}
			for i := 0; i < n; i++ {
				row := capRows[r.Intn(len(capRows))]
				var caps []int
				for _, c := range row {
					caps = append(caps, int(c))
				}
				if r.Chance(0.1) { // shuffled / duplicated capability lists
					caps = append(caps, caps...)
				}
				pi := r.Intn(nPhys)
				ph := fmt.Sprintf("usb-0000:00:14.0-%d/input0", pi)
				if r.Chance(0.1) {
					ph = ""
				}
				// the serial number: usually the same on every interface of a device or missing on some of them
				uq := ""
				switch r.Pick(5, 3, 1) {
				case 1:
					uq = fmt.Sprintf("SN%04d", 100+pi)
				case 2:
					uq = fmt.Sprintf("SN%04d", r.Intn(3))
				}
				hs = append(hs, w6Handler{Uniq: uq, Name: fmt.Sprintf("Sim Device %d %s", r.Intn(nPhys), []string{"", "Mouse", "Consumer Control", "System Control", "Keyboard"}[r.Intn(5)]),
					Phys: ph, Caps: caps, Event: fmt.Sprintf("event%d", evBase+uint64(i)), Prod: r.Intn(3)})
			}
			rounds = append(rounds, hs)
		}
	}
	mk := func(h w6Handler) input.DeviceInfo {
		var types []evdev.EvType
		for _, c := range h.Caps {
			types = append(types, evdev.EvType(c))
		}
		di := input.NewDeviceInfoForSim(strings.TrimSpace(h.Name), h.Phys, h.Event, input.InputID{Bus: 3, Vendor: 0x1234, Product: uint16(h.Prod), Version: 1}, types)
		di.Uniq = h.Uniq
		di.Sysfs = "/dev/input/" + h.Event
		return di
	}
	b, _ := json.Marshal(rounds)
	fail := func(clause, detail string) RunOut {
		ro.Vio = &Vio{Props: []string{"C20"}, Clause: clause, Detail: detail}
		ro.Replay = &Replay{World: "W6", Prop: "C20", Seed: seed, Tier: job.Tier, Ops: b, Override: true, Config: string(b)}
		return ro
	}
	var firstSig string
	orders := 6
	for ri, hs := range rounds {
		for o := 0; o < orders; o++ {
			if ri > 0 && o >= 2 {
				break
			}
			perm := r.Perm(len(hs))
			if o == 0 {
				for i := range perm {
					perm[i] = i
				}
			}
			var in []input.DeviceInfo
			for _, i := range perm {
				in = append(in, mk(hs[i]))
			}
			simrt.StandaloneMapOrder(simrt.NewRng(seed+uint64(o)+uint64(ri)*16, "maporder"))
			devs := input.Normalize(in)
			simrt.StandaloneMapOrder(nil)
			ro.Steps++
			// partition
			seen := map[string]int{}
			var sig []string
			for _, d := range devs {
				var evs []string
				var dis []input.DeviceInfo
				physSet := map[string]bool{}
				for _, h := range d.Handlers {
					di := h.DeviceInfo
					evs = append(evs, di.Event())
					seen[di.Event()]++
					physSet[di.Phys] = true
					dis = append(dis, di)
				}
				if len(physSet) != 1 {
					return fail("mixed_locations_in_one_device", fmt.Sprintf("a device groups handlers of %d physical locations: %v", len(physSet), evs))
				}
				if want := refType(dis); devTypeName(d.DeviceType) != want {
					return fail("wrong_device_type", fmt.Sprintf("handlers %v: expected %s, got %s", evs, want, d.DeviceType))
				}
				sort.Strings(evs)
				sig = append(sig, strings.Join(evs, "+")+":"+devTypeName(d.DeviceType)+"@"+d.Phys)
			}
			for _, h := range hs {
				if seen[h.Event] != 1 {
					return fail("handler_not_in_exactly_one_device", fmt.Sprintf("handler %s appears in %d devices", h.Event, seen[h.Event]))
				}
			}
			// same location => same device
			// (by the location the handlers themselves report, not by what the device says about itself)
			byPhys := map[string]int{}
			for _, d := range devs {
				if len(d.Handlers) > 0 {
					byPhys[d.Handlers[0].DeviceInfo.Phys]++
				}
			}
			for p, n := range byPhys {
				if n > 1 {
					return fail("location_split_over_devices", fmt.Sprintf("physical location %q is spread over %d devices", p, n))
				}
			}
			sort.Strings(sig)
			s := strings.Join(sig, " | ")
			if o == 0 {
				firstSig = s
			} else if s != firstSig {
				return fail("order_dependent", fmt.Sprintf("discovery order %v gives %s, the original order gave %s", perm, s, firstSig))
			}
		}
	}
	ro.Hash = hashStr(string(b))
	ro.Faults["discovery_orders"] += orders + 2*(len(rounds)-1)
	ro.Faults["map_orders"] += orders + 2*(len(rounds)-1)
	ro.Faults["discovery_rounds_reusing_event_nodes"] += len(rounds) - 1
	ro.Sample = fmt.Sprintf("seed=%d handlers=%s -> %s", seed, shorten(string(b), 400), shorten(firstSig, 300))
	return ro
}
