package worlds

import (
	"fmt"
	"math"
	"sort"

	"github.com/gethiox/HIDI/verifsim/model"
	"github.com/gethiox/HIDI/verifsim/simrt"
)

// sweepValues returns the raw positions of a C06 sweep for one axis: all values of small ranges,
// otherwise ends, centre, deadzone edges (±2) and random values.
func sweepValues(r *simrt.Rng, a model.AxisDesc, sa *model.SubAnalog, n int) []int32 {
	span := int(a.Max) - int(a.Min)
	set := map[int32]bool{}
	add := func(v int64) {
		if v >= int64(a.Min) && v <= int64(a.Max) && !model.NearDeadzoneEdge(&a, sa, int32(v)) {
			set[int32(v)] = true
		}
	}
	if span <= 255 {
		for v := int64(a.Min); v <= int64(a.Max); v++ {
			add(v)
		}
	} else {
		dz := 0.0
		if a.Deadzone != nil {
			dz = *a.Deadzone
		} else if sa.DefaultDZ != nil {
			dz = *sa.DefaultDZ
		}
		mid := int64(0)
		if a.Min == 0 {
			mid = (int64(a.Max) + 1) / 2
		}
		for d := int64(-2); d <= 2; d++ {
			add(int64(a.Min) + d)
			add(int64(a.Max) + d)
			add(mid + d)
			add(d)
			e := int64(dz * float64(a.Max))
			add(e + d)
			add(-e + d)
			if a.Min == 0 {
				h := float64(a.Max) / 2
				add(int64(h+dz*h) + d)
				add(int64(h-dz*h) + d)
			}
		}
		for i := 0; i < n; i++ {
			add(int64(a.Min) + int64(r.Intn(span+1)))
		}
	}
	var out []int32
	for v := range set {
		out = append(out, v)
	}
	sort.Slice(out, func(i, j int) bool { return out[i] < out[j] })
	return out
}

func genC06(c *w1Case, r *simrt.Rng, thorough bool) {
	if r.Chance(0.1) {
		genTwinAxes(c, r, []string{"cc", "cc2", "pitch_bend"})
		return
	}
	kinds := [][]string{{"cc"}, {"cc2"}, {"pitch_bend"}, {"cc", "cc2", "pitch_bend"}}[r.Intn(4)]
	o := genOpts{nKeys: [2]int{1, 2}, nMaps: [2]int{1, 2}, notePool: []int{60}, actions: []string{"channel_up", "channel_down", "mapping_up", "mapping_down"}, exitLen: -1,
		defaults: r.Chance(0.5), axes: r.Range(1, 3), axisKinds: kinds, handlers: 1}
	c.d = baseDesc(r, o)
	// hats among the axes
	if r.Chance(0.3) {
		code := c.d.Mappings[0].Analog[0].Axes[0].Code
		for mi := range c.d.Mappings {
			for si := range c.d.Mappings[mi].Analog {
				for ai := range c.d.Mappings[mi].Analog[si].Axes {
					b := &c.d.Mappings[mi].Analog[si].Axes[ai]
					if b.Code == code {
						b.Min, b.Max, b.DZCenter = -1, 1, false
					}
				}
			}
		}
	}
	shareRanges(c.d)
	g := newScriptGen(r, c.d)
	n := 40
	if thorough {
		n = 200
	}
	for ai, a := range c.d.Mappings[0].Analog[0].Axes {
		_ = ai
		vals := sweepValues(r, a, &c.d.Mappings[0].Analog[0], n)
		// visiting order: ascending, descending or shuffled ((previous, new) pairs for the stateful parts)
		switch r.Intn(3) {
		case 1:
			for i, j := 0, len(vals)-1; i < j; i, j = i+1, j-1 {
				vals[i], vals[j] = vals[j], vals[i]
			}
		case 2:
			p := r.Perm(len(vals))
			nv := make([]int32, len(vals))
			for i, j := range p {
				nv[i] = vals[j]
			}
			vals = nv
		}
		limit := 140
		if thorough {
			limit = 600
		}
		for i, v := range vals {
			if i >= limit {
				break
			}
			g.out = append(g.out, model.Event{Kind: "abs", Code: a.Code, Value: v})
			if r.Chance(0.03) {
				g.out = append(g.out, model.Event{Kind: "abs", Code: a.Code, Value: v}) // exact repeat
			}
			if r.Chance(0.02) {
				g.steps(1, 0, 1, 0, false) // channel / mapping change in between
			}
		}
	}
	g.releaseAll()
	c.script = g.out
}

// shareRanges makes every mapping see the same physical range for the same axis code (one physical
// device): the first occurrence decides; deadzone_at_center only stays on axes with minimum 0.
func shareRanges(d *model.Desc) {
	type rg struct{ min, max int32 }
	first := map[uint16]rg{}
	for mi := range d.Mappings {
		for si := range d.Mappings[mi].Analog {
			for ai := range d.Mappings[mi].Analog[si].Axes {
				a := &d.Mappings[mi].Analog[si].Axes[ai]
				if f, ok := first[a.Code]; ok {
					a.Min, a.Max = f.min, f.max
				} else {
					first[a.Code] = rg{a.Min, a.Max}
				}
				if a.Min != 0 {
					a.DZCenter = false
				}
			}
		}
	}
}

func genC07(c *w1Case, r *simrt.Rng) {
	if r.Chance(0.15) {
		genTwinAxes(c, r, []string{"cc2"})
		return
	}
	o := genOpts{nKeys: [2]int{1, 2}, nMaps: [2]int{1, 1}, notePool: []int{60}, actions: []string{"cc_learning"}, exitLen: -1,
		defaults: r.Chance(0.5), axes: r.Range(1, 3), axisKinds: []string{"cc2"}, handlers: 1}
	// the stick stays deflected while the channel or the mapping changes: the pair of controllers "at the
	// receiver" is then another one (other channel; in another mapping possibly the same numbers in other roles)
	moving := r.Chance(0.35)
	if moving {
		o.actions = append(o.actions, "channel_up", "channel_down")
		if r.Chance(0.6) {
			o.nMaps = [2]int{2, 2}
			o.actions = append(o.actions, "mapping_up", "mapping_down")
		}
	}
	c.d = baseDesc(r, o)
	shareRanges(c.d)
	if len(c.d.Mappings) > 1 {
		a0 := c.d.Mappings[0].Analog[0].Axes
		a1 := c.d.Mappings[1].Analog[0].Axes
		for i := range a1 {
			if i >= len(a0) || a0[i].Code != a1[i].Code || a1[i].CC == nil || a1[i].CCNeg == nil {
				continue
			}
			switch r.Intn(4) {
			case 0: // mirrored
				a1[i].CC, a1[i].CCNeg = ip(*a0[i].CCNeg), ip(*a0[i].CC)
			case 1: // shifted
				a1[i].CC = ip(*a0[i].CCNeg)
			case 2: // the same pair
				a1[i].CC, a1[i].CCNeg = ip(*a0[i].CC), ip(*a0[i].CCNeg)
			}
		}
		// the two sides of an axis are two controllers, and no two axes of a mapping share one (the statement is
		// about "the two controllers" of an axis): re-draw what the variation made coincide
		used := map[int]bool{}
		for i := range a1 {
			for _, pp := range []**int{&a1[i].CC, &a1[i].CCNeg} {
				if *pp == nil {
					continue
				}
				for used[**pp] {
					*pp = ip((**pp + 1) % 120)
				}
				used[**pp] = true
			}
		}
	}
	if len(c.d.Mappings) == 1 && r.Chance(0.12) {
		// one controller number for both sides, told apart by their channel offsets
		ax := &c.d.Mappings[0].Analog[0].Axes[r.Intn(len(c.d.Mappings[0].Analog[0].Axes))]
		if ax.CC != nil && ax.CCNeg != nil {
			ax.CCNeg = ip(*ax.CC)
			ax.HasOff, ax.HasOffNeg = true, true
			ax.Off = r.Range(0, 15)
			ax.OffNeg = (ax.Off + r.Range(1, 15)) % 16
		}
	}
	if r.Chance(0.25) {
		// the receiver is not fresh: an earlier session of the device (before a reconnect or a configuration
		// reload) left values in the controllers of the axes
		c.preCC = map[[2]int]int{}
		for _, ax := range c.d.Mappings[0].Analog[0].Axes {
			if ax.CC == nil || ax.CCNeg == nil {
				continue
			}
			chP := (c.d.Channel-1+ax.Off)%16 + 1
			chN := (c.d.Channel-1+ax.OffNeg)%16 + 1
			if r.Chance(0.7) {
				c.preCC[[2]int{chP, *ax.CC}] = r.Range(1, 127)
			}
			if r.Chance(0.7) {
				c.preCC[[2]int{chN, *ax.CCNeg}] = r.Range(1, 127)
			}
		}
	}
	g := newScriptGen(r, c.d)
	learn := c.d.Actions[0]
	axes := c.d.Mappings[0].Analog[0].Axes
	n := r.Range(10, 80)
	for i := 0; i < n; i++ {
		if moving && r.Chance(0.15) {
			ak := c.d.Actions[1+r.Intn(len(c.d.Actions)-1)]
			if g.pressAction(ak) {
				g.release(ak.Code)
			}
			continue
		}
		if r.Chance(0.12) {
			if g.down[learn.Code] {
				g.release(learn.Code)
			} else {
				g.pressAction(learn)
			}
			continue
		}
		a := axes[r.Intn(len(axes))]
		var v int32
		mid := int32(0)
		if a.Min == 0 {
			mid = (a.Max + 1) / 2
		}
		switch r.Intn(7) {
		case 0:
			v = a.Min
		case 1:
			v = a.Max
		case 2:
			v = mid
		case 3:
			v = mid + 1
		case 4:
			v = mid - 1
		default:
			v = g.safeRaw(r, a)
		}
		if v < a.Min {
			v = a.Min
		}
		g.out = append(g.out, model.Event{Kind: "abs", Code: a.Code, Value: v})
	}
	g.releaseAll()
	c.script = g.out
}

func genC08(c *w1Case, r *simrt.Rng) {
	if r.Chance(0.12) {
		// two sub-handlers of one device report the same axis code (sticks and touchpad of the shipped PS4 file), both
		// emulate keys
		genTwinAxes(c, r, []string{"key", "key", "key1"})
		return
	}
	kinds := [][]string{{"key"}, {"key1"}, {"key", "key1"}}[r.Intn(3)]
	o := genOpts{nKeys: [2]int{1, 3}, nMaps: [2]int{1, 1}, notePool: []int{30, 90}, actions: []string{"octave_up", "octave_down", "semitone_up", "semitone_down", "channel_up", "channel_down"}, exitLen: -1,
		defaults: r.Chance(0.5), axes: r.Range(1, 3), axisKinds: kinds, handlers: 1, edgeNotes: r.Chance(0.4)}
	c.d = baseDesc(r, o)
	if c.d.Octave > 1 || c.d.Octave < -1 {
		c.d.Octave = 0
	}
	forceHatLike(c.d, r)
	shareRanges(c.d)
	g := newScriptGen(r, c.d)
	n := r.Range(10, 70)
	oct := 0
	for i := 0; i < n; i++ {
		if r.Chance(0.2) {
			// keep |octave| small so that the configured notes (40..80) stay in range
			ak := c.d.Actions[r.Intn(len(c.d.Actions))]
			if ak.Action == "octave_up" && oct >= 2 || ak.Action == "octave_down" && oct <= -2 {
				continue
			}
			if g.pressAction(ak) {
				g.release(ak.Code)
				if ak.Action == "octave_up" {
					oct++
				}
				if ak.Action == "octave_down" {
					oct--
				}
			}
			continue
		}
		if r.Chance(0.12) {
			creepAcross(g, r)
			continue
		}
		g.axisMove(r)
	}
	g.axesToCentre()
	g.releaseAll()
	c.script = g.out
}

// creepAcross moves a stick in very small steps across one of the four thresholds of key emulation (half travel and
// 49 % of it, on either side), up or down: each of the positions is a position of its own, however close to the last.
func creepAcross(g *scriptGen, r *simrt.Rng) {
	var cands []model.AxisDesc
	for _, a := range g.axisList() {
		if a.Type == "key" && int64(a.Max)-int64(a.Min) >= 1000 {
			cands = append(cands, a)
		}
	}
	if len(cands) == 0 {
		return
	}
	a := cands[r.Intn(len(cands))]
	var sa *model.SubAnalog
	for si := range g.d.Mappings[0].Analog {
		for _, b := range g.d.Mappings[0].Analog[si].Axes {
			if b.Code == a.Code {
				sa = &g.d.Mappings[0].Analog[si]
			}
		}
	}
	if sa == nil {
		return
	}
	// the deflection (-1..1) a raw position amounts to
	defl := func(raw int32) (float64, bool) {
		s, canNeg, _, ok := model.Shape(&a, sa, raw)
		if !ok {
			return 0, false
		}
		f, _ := model.Flipped(&a, s, canNeg).Float64()
		if !canNeg {
			f = 2*f - 1
		}
		return f, true
	}
	target := []float64{0.5, 0.49, -0.5, -0.49}[r.Intn(4)]
	lo, hi := a.Min, a.Max
	dl, ok1 := defl(lo)
	dh, ok2 := defl(hi)
	if !ok1 || !ok2 || dl == dh {
		return
	}
	rising := dh > dl
	for hi-lo > 1 {
		mid := lo + (hi-lo)/2
		dm, ok := defl(mid)
		if !ok {
			return
		}
		if (dm < target) == rising {
			lo = mid
		} else {
			hi = mid
		}
	}
	step := int32((int64(a.Max) - int64(a.Min)) / 900)
	if step < 1 {
		step = 1
	}
	var seq []int32
	for k := int32(-4); k <= 4; k++ {
		v := lo + k*step
		if v < a.Min || v > a.Max {
			continue
		}
		seq = append(seq, v)
	}
	if r.Chance(0.5) {
		for i, j := 0, len(seq)-1; i < j; i, j = i+1, j-1 {
			seq[i], seq[j] = seq[j], seq[i]
		}
	}
	for _, v := range seq {
		if model.NearDeadzoneEdge(&a, sa, v) {
			continue
		}
		if s, cn, _, ok := model.Shape(&a, sa, v); ok && model.NearThreshold(model.Flipped(&a, s, cn), cn) {
			continue
		}
		g.out = append(g.out, model.Event{Kind: "abs", Handler: g.axH[a.Code], Code: a.Code, Value: v})
	}
}

// genC05 draws corner configurations the parser may accept and histories that exercise every
// emitting path; only the byte-level monitor judges these runs.
func genC05(c *w1Case, r *simrt.Rng) {
	c.scenario = "corner"
	c.monitor = true
	acts := append([]string{"panic", "cc_learning"}, transposeActions...)
	o := genOpts{nKeys: [2]int{2, 6}, nMaps: [2]int{1, 2}, notePool: []int{0, 1, 60, 126, 127}, offsets: true, actions: acts, exitLen: -1, defaults: true,
		unmapProb: 0.2, remapProb: 0.3, axes: r.Range(0, 3), axisKinds: []string{"cc", "cc2", "pitch_bend", "key", "key1"}, handlers: r.Range(1, 2), edgeNotes: true, analogSubs: true}
	c.d = baseDesc(r, o)
	shareRanges(c.d)
	d := c.d
	// half of the runs carry exactly one value outside its MIDI range: the parser must reject it (the run
	// is then skipped); if it lets it through, the byte monitor sees what the device makes of it
	bad := -1
	if r.Chance(0.5) {
		bad = r.Intn(9)
	}
	badVals := []int{128, 129, 200, 255, 256, 300, -1, 1000}
	bv := badVals[r.Intn(len(badVals))]
	switch bad {
	case 0:
		d.Velocity, d.HasVel = bv, true
	case 1:
		d.Channel, d.HasChan = []int{0, 17, 255, 256, -1, 32}[r.Intn(6)], true
	}
	injected := bad < 2
	for mi := range d.Mappings {
		for si := range d.Mappings[mi].Keys {
			for ki := range d.Mappings[mi].Keys[si].Keys {
				k := &d.Mappings[mi].Keys[si].Keys[ki]
				if !injected && bad == 2 {
					k.Note, k.NoteText, injected = bv, fmt.Sprint(bv), true
				}
				if !injected && bad == 3 {
					k.Offset, k.HasOff, injected = []int{16, 17, 255, 256, -1}[r.Intn(5)], true, true
				}
			}
		}
		for si := range d.Mappings[mi].Analog {
			for ai := range d.Mappings[mi].Analog[si].Axes {
				a := &d.Mappings[mi].Analog[si].Axes[ai]
				if injected {
					continue
				}
				switch {
				case bad == 4 && a.CC != nil:
					a.CC, injected = ip([]int{120, 127, 128, 200, 255, 256, -1}[r.Intn(7)]), true
				case bad == 5 && a.CCNeg != nil:
					a.CCNeg, injected = ip([]int{120, 127, 128, 200, 255, 256, -1}[r.Intn(7)]), true
				case bad == 6 && a.Note != nil:
					a.Note, injected = ip(bv), true
				case bad == 7 && a.NoteNeg != nil:
					a.NoteNeg, injected = ip(bv), true
				case bad == 8:
					if r.Chance(0.5) {
						a.HasOff, a.Off = true, []int{16, 17, 255, 256, -1}[r.Intn(5)]
					} else {
						a.HasOffNeg, a.OffNeg = true, []int{16, 17, 255, 256, -1}[r.Intn(5)]
					}
					injected = true
				}
			}
		}
	}
	switch r.Intn(8) {
	case 0:
		d.HasChan = false
		d.Channel = 0
	case 1:
		d.Channel = []int{0, 16, 17, -1, 255, 256, 1}[r.Intn(7)]
	case 2:
		d.Velocity = []int{0, 1, 127}[r.Intn(3)]
	}
	for mi := range d.Mappings {
		for si := range d.Mappings[mi].Keys {
			for ki := range d.Mappings[mi].Keys[si].Keys {
				k := &d.Mappings[mi].Keys[si].Keys[ki]
				if r.Chance(0.3) {
					k.Offset, k.HasOff = []int{0, 15}[r.Intn(2)], true
				}
			}
		}
		for si := range d.Mappings[mi].Analog {
			sa := &d.Mappings[mi].Analog[si]
			for ai := range sa.Axes {
				a := &sa.Axes[ai]
				if a.CC != nil && r.Chance(0.3) {
					a.CC = ip([]int{0, 119}[r.Intn(2)])
				}
				if r.Chance(0.3) {
					a.HasOff, a.Off = true, []int{0, 15, 16, 17, 200, 255, 256, -1}[r.Intn(8)]
				}
				if r.Chance(0.3) {
					a.HasOffNeg, a.OffNeg = true, []int{0, 15, 16, 100, 255, -1}[r.Intn(6)]
				}
				if r.Chance(0.3) {
					a.Deadzone = fp([]float64{0, 1, 1.5, -0.5, math.NaN(), math.Inf(1), math.Inf(-1), 0.999}[r.Intn(8)])
				}
			}
		}
	}
	g := newScriptGen(r, d)
	n := r.Range(10, 60)
	for i := 0; i < n; i++ {
		if len(g.axisList()) > 0 && r.Chance(0.4) {
			as := g.axisList()
			a := as[r.Intn(len(as))]
			var v int32
			switch r.Intn(4) {
			case 0:
				v = a.Min
			case 1:
				v = a.Max
			default:
				v = a.Min + int32(r.Intn(int(a.Max-a.Min)+1))
			}
			g.out = append(g.out, model.Event{Kind: "abs", Handler: g.axH[a.Code], Code: a.Code, Value: v})
		} else {
			g.steps(1, 5, 4, 2, false)
		}
	}
	g.releaseAll()
	c.script = g.out
}

// genTwinAxes: one logical device whose two sub-handlers report the *same* axis code with different ranges
// (the shipped PS4 configuration maps ABS_X of the sticks, 0..255, and ABS_X of the touchpad, 0..1919), both
// mapped to controllers. Positions are drawn from a small set per axis so that equal shaped values on the two
// axes are common.
func genTwinAxes(c *w1Case, r *simrt.Rng, kinds []string) {
	o := genOpts{nKeys: [2]int{1, 2}, nMaps: [2]int{1, 1}, notePool: []int{60}, actions: []string{"cc_learning"}, exitLen: -1, defaults: r.Chance(0.5), handlers: 2}
	// in some runs the channel changes now and then: what the two handlers' axes have sent so far is forgotten then,
	// for each of them separately
	chans := r.Chance(0.4)
	if chans {
		o.actions = append(o.actions, "channel_up", "channel_down")
	}
	c.d = baseDesc(r, o)
	name := stickAxes[r.Intn(4)]
	var twins []model.AxisDesc
	ccs := r.Perm(120)
	ranges := [][2]int32{{0, 255}, {0, 1919}, {-128, 127}, {-32768, 32767}, {0, 65535}, {-127, 127}}
	p := r.Perm(len(ranges))
	var subs []model.SubAnalog
	for hi := 0; hi < 2; hi++ {
		a := drawAxis(r, name, kinds[r.Intn(len(kinds))], hi)
		a.Min, a.Max = ranges[p[hi]][0], ranges[p[hi]][1]
		if r.Chance(0.5) {
			// or the same range on both, so that equal positions give equal shaped values
			a.Min, a.Max = ranges[p[0]][0], ranges[p[0]][1]
		}
		if a.Min != 0 {
			a.DZCenter = false
		}
		if a.CC != nil {
			a.CC = ip(ccs[hi*2])
		}
		if a.CCNeg != nil {
			a.CCNeg = ip(ccs[hi*2+1])
		}
		twins = append(twins, a)
		sa := model.SubAnalog{Sub: c.d.Handlers[hi], Axes: []model.AxisDesc{a}}
		if r.Chance(0.5) {
			sa.DefaultDZ = fp([]float64{0, 0.1, 0.25}[r.Intn(3)])
		}
		subs = append(subs, sa)
	}
	c.d.Mappings[0].Analog = subs
	g := newScriptGen(r, c.d)
	n := r.Range(10, 60)
	for i := 0; i < n; i++ {
		if chans && len(g.actDown) == 0 && r.Chance(0.15) {
			for _, ak := range c.d.Actions {
				if ak.Action == []string{"channel_up", "channel_down"}[r.Intn(2)] && g.pressAction(ak) {
					g.release(ak.Code)
				}
			}
			continue
		}
		hi := r.Intn(2)
		a := twins[hi]
		mid := int32(0)
		if a.Min == 0 {
			mid = (a.Max + 1) / 2
		}
		var v int32
		switch r.Intn(6) {
		case 0:
			v = a.Min
		case 1:
			v = a.Max
		case 2:
			v = mid
		case 3:
			v = a.Min + (a.Max-a.Min)/4
		case 4:
			v = a.Max - (a.Max-a.Min)/4
		default:
			v = a.Min + int32(r.Intn(int(a.Max-a.Min)+1))
		}
		if model.NearDeadzoneEdge(&a, &c.d.Mappings[0].Analog[hi], v) {
			continue
		}
		if s, cn, _, ok := model.Shape(&a, &c.d.Mappings[0].Analog[hi], v); ok && model.NearThreshold(model.Flipped(&a, s, cn), cn) {
			continue
		}
		g.out = append(g.out, model.Event{Kind: "abs", Handler: hi, Code: a.Code, Value: v})
	}
	c.script = g.out
}
