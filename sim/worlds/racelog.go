package worlds

import (
	"os"
	"regexp"
	"sort"
	"strings"
)

// The race detector is the happens-before monitor of C16: the scheduler's own synchronisation is
// hidden from it (simrt), so it reports exactly the unsynchronised accesses of the program although
// the execution is serial. Reports go to $GORACE's log_path; the worker reads what a run appended.

var raceLogOffset int64

func raceLogPath() string {
	for _, kv := range strings.Fields(os.Getenv("GORACE")) {
		if strings.HasPrefix(kv, "log_path=") {
			return strings.TrimPrefix(kv, "log_path=") + "." + itoa(os.Getpid())
		}
	}
	return ""
}

func itoa(n int) string {
	if n == 0 {
		return "0"
	}
	var b []byte
	for n > 0 {
		b = append([]byte{byte('0' + n%10)}, b...)
		n /= 10
	}
	return string(b)
}

type raceReport struct {
	Text string
	Sig  string // "<func A> <-> <func B>" over the first HIDI frames of the two accesses
	Hidi bool
}

var frameRe = regexp.MustCompile(`(?m)^  (\S+)\(\)$`)

func newRaceReports() []raceReport {
	p := raceLogPath()
	if p == "" {
		return nil
	}
	f, err := os.Open(p)
	if err != nil {
		return nil
	}
	defer f.Close()
	st, _ := f.Stat()
	if st.Size() <= raceLogOffset {
		return nil
	}
	buf := make([]byte, st.Size()-raceLogOffset)
	f.ReadAt(buf, raceLogOffset)
	raceLogOffset = st.Size()
	var out []raceReport
	for _, rep := range strings.Split(string(buf), "==================") {
		if !strings.Contains(rep, "WARNING: DATA RACE") {
			continue
		}
		// the two access stacks are the first two paragraphs
		paras := strings.Split(strings.TrimSpace(rep), "\n\n")
		var fns []string
		for i, para := range paras {
			if i > 1 {
				break
			}
			fn := ""
			for _, m := range frameRe.FindAllStringSubmatch(para, -1) {
				name := m[1]
				if strings.Contains(name, "gethiox/HIDI/") && !strings.Contains(name, "/verifsim/") {
					fn = name[strings.LastIndex(name, "/")+1:]
					break
				}
			}
			fns = append(fns, fn)
		}
		r := raceReport{Text: rep}
		if len(fns) == 2 && fns[0] != "" && fns[1] != "" {
			sort.Strings(fns)
			r.Sig = fns[0] + " <-> " + fns[1]
			r.Hidi = true
		} else if len(fns) == 2 && (fns[0] != "" || fns[1] != "") {
			r.Sig = fns[0] + fns[1] + " <-> (outside HIDI)"
			r.Hidi = true
		}
		out = append(out, r)
	}
	return out
}
