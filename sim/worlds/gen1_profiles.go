package worlds

import (
	"fmt"
	"math/big"
	"strings"

	"github.com/gethiox/HIDI/verifsim/model"
	"github.com/gethiox/HIDI/verifsim/simrt"
)

var transposeActions = []string{"octave_up", "octave_down", "semitone_up", "semitone_down", "channel_up", "channel_down", "mapping_up", "mapping_down"}

func intsRange(lo, hi int) []int {
	var s []int
	for i := lo; i <= hi; i++ {
		s = append(s, i)
	}
	return s
}

// genW1 draws the configuration, script and run parameters for one run of the device world.
func genW1(prop, tier string, r *simrt.Rng) *w1Case {
	c := &w1Case{capIn: []int{0, 0, 8}[r.Intn(3)], capOut: []int{8, 8, 0, 1}[r.Intn(4)], noLogs: r.Chance(0.7)}
	thorough := tier == "thorough"
	switch prop {
	case "C01":
		genC01(c, r, thorough)
	case "C02":
		genC02(c, r)
	case "C03":
		genC03(c, r)
	case "C04":
		genC04(c, r, thorough)
	case "C13":
		genC13(c, r)
	case "C14":
		genC14(c, r)
	case "C05":
		// the byte monitor judges every run: half corner configurations, half the workloads of the other
		// device properties
		if r.Chance(0.5) {
			genC05(c, r)
		} else {
			if r.Chance(0.12) {
				genTwinAxes(c, r, []string{"cc", "cc2", "pitch_bend"})
				return c
			}
			others := []string{"C01", "C02", "C03", "C04", "C13", "C06", "C07", "C08", "C08", "C06"}
			inner := genW1(others[r.Intn(len(others))], tier, r)
			*c = *inner
			c.unplugs = []int{-1}
		}
		// the messages of the disconnect clean-up are messages too: unplug in the middle of the history as well
		// (keys down, key-emulating axes deflected)
		if n := len(c.script); n > 0 && !c.burst && r.Chance(0.5) {
			c.unplugs = append(c.unplugs, r.Intn(n))
		}
	case "C06":
		genC06(c, r, thorough)
	case "C07":
		genC07(c, r)
	case "C08":
		genC08(c, r)
	default:
		genC01(c, r, false)
	}
	if len(c.unplugs) == 0 {
		c.unplugs = []int{-1}
	}
	return c
}

func unplugPoints(c *w1Case, r *simrt.Rng, all bool) {
	n := len(c.script)
	if all {
		for k := 0; k <= n; k++ {
			c.unplugs = append(c.unplugs, k)
		}
		return
	}
	c.unplugs = []int{-1}
	for i := 0; i < 3 && n > 0; i++ {
		c.unplugs = append(c.unplugs, r.Intn(n))
	}
}

func genC01(c *w1Case, r *simrt.Rng, thorough bool) {
	// low-weight scenarios aimed at the three stuck-note defects confirmed on the pinned tree
	switch r.Pick(88, 4, 4, 4) {
	case 1:
		scenarioKeyAxisMappingSwitch(c, r)
		return
	case 2:
		scenarioSameCodeTwoHandlers(c, r)
		return
	case 3:
		scenarioLearningGateKeyAxis(c, r)
		return
	}
	if r.Chance(0.3) {
		genSandwich(c, r)
		unplugPoints(c, r, thorough)
		return
	}
	axes := r.Pick(5, 3, 2)
	acts := append([]string{}, transposeActions...)
	acts = append(acts, "panic", "multinote", "cc_learning")
	o := genOpts{prop: "C01", nKeys: [2]int{2, 12}, nMaps: [2]int{1, 3}, notePool: []int{60, 60, 62, 64, 72, 48, 60}, offsets: r.Chance(0.5),
		actions: acts, exitLen: -1, defaults: true, unmapProb: 0.3, remapProb: 0.3, axes: axes, axisKinds: []string{"key", "key1", "key", "cc", "cc2", "none"},
		axisKindsPerMapping: true, handlers: r.Range(1, 2), analogSubs: true}
	c.d = baseDesc(r, o)
	forceHatLike(c.d, r)
	if axes > 0 && r.Chance(0.06) {
		// discovery could not read the ranges of one axis: whatever it is mapped to, its events can mean nothing
		code := c.d.Mappings[0].Analog[0].Axes
		if len(code) > 0 {
			bad := code[r.Intn(len(code))].Code
			for mi := range c.d.Mappings {
				for si := range c.d.Mappings[mi].Analog {
					for ai := range c.d.Mappings[mi].Analog[si].Axes {
						if a := &c.d.Mappings[mi].Analog[si].Axes[ai]; a.Code == bad {
							a.NoInfo = true
						}
					}
				}
			}
		}
	}
	g := newScriptGen(r, c.d)
	rounds := r.Range(1, 3)
	for i := 0; i < rounds; i++ {
		n := r.Range(4, 20)
		for j := 0; j < n; j++ {
			if axes > 0 && r.Chance(0.2) {
				g.axisMove(r)
			} else {
				g.steps(1, 6, 3, 2, false)
			}
		}
		g.releaseAll()
		g.axesToCentre()
	}
	c.script = g.out
	unplugPoints(c, r, thorough)
}

// forceHatLike turns some key-emulating axes into hats (-1/0/1) and then makes every mapping see the
// same physical range for the same axis code.
func forceHatLike(d *model.Desc, r *simrt.Rng) {
	hat := map[uint16]bool{}
	for mi := range d.Mappings {
		for si := range d.Mappings[mi].Analog {
			for ai := range d.Mappings[mi].Analog[si].Axes {
				a := &d.Mappings[mi].Analog[si].Axes[ai]
				if _, seen := hat[a.Code]; !seen {
					hat[a.Code] = a.Type == "key" && r.Chance(0.5)
				}
				if hat[a.Code] {
					a.Min, a.Max = -1, 1
					a.Deadzone = fp(0)
				}
			}
		}
	}
	shareRanges(d)
}

func (g *scriptGen) axisList() []model.AxisDesc {
	var out []model.AxisDesc
	seen := map[uint16]bool{}
	for _, m := range g.d.Mappings {
		for _, sa := range m.Analog {
			for _, a := range sa.Axes {
				if !seen[a.Code] {
					seen[a.Code] = true
					out = append(out, a)
				}
			}
		}
	}
	return out
}

// safeRaw draws a raw position of the axis that is not within 1e-6 of a decision threshold in any mapping.
func (g *scriptGen) safeRaw(r *simrt.Rng, a model.AxisDesc) int32 {
	for try := 0; try < 50; try++ {
		var v int32
		switch r.Intn(6) {
		case 0:
			v = a.Min
		case 1:
			v = a.Max
		case 2:
			v = 0
			if a.Min == 0 {
				v = (a.Max + 1) / 2
			}
		default:
			v = a.Min + int32(r.Intn(int(a.Max-a.Min)+1))
		}
		ok := true
		for _, m := range g.d.Mappings {
			for si := range m.Analog {
				for _, b := range m.Analog[si].Axes {
					if b.Code != a.Code {
						continue
					}
					s, canNeg, _, good := model.Shape(&b, &m.Analog[si], v)
					if !good {
						continue
					}
					if model.NearDeadzoneEdge(&b, &m.Analog[si], v) {
						ok = false
					}
					if model.NearThreshold(model.Flipped(&b, s, canNeg), canNeg) {
						ok = false
					}
				}
			}
		}
		if ok {
			return v
		}
	}
	return a.Max
}

func (g *scriptGen) axisMove(r *simrt.Rng) {
	as := g.axisList()
	if len(as) == 0 {
		return
	}
	a := as[r.Intn(len(as))]
	g.out = append(g.out, model.Event{Kind: "abs", Handler: g.axH[a.Code], Code: a.Code, Value: g.safeRaw(r, a)})
}

// neutralRaw finds a raw position at which the axis sounds no direction in any mapping that uses it
// as a key (the physical centre if possible).
func (g *scriptGen) neutralRaw(a model.AxisDesc) (int32, bool) {
	centre := int32(0)
	if a.Min == 0 {
		centre = (a.Max + 1) / 2
	}
	cands := []int32{centre}
	for i := 0; i <= 64; i++ {
		cands = append(cands, a.Min+int32(int64(a.Max-a.Min)*int64(i)/64))
	}
	for _, v := range cands {
		ok := true
		for _, m := range g.d.Mappings {
			for si := range m.Analog {
				for _, b := range m.Analog[si].Axes {
					if b.Code != a.Code || b.Type != "key" {
						continue
					}
					s, canNeg, _, good := model.Shape(&b, &m.Analog[si], v)
					if !good || model.NearDeadzoneEdge(&b, &m.Analog[si], v) {
						ok = false
						continue
					}
					f := model.Flipped(&b, s, canNeg)
					if !model.Neutral(f, canNeg) {
						ok = false
					}
				}
			}
		}
		if ok {
			return v, true
		}
	}
	return 0, false
}

func (g *scriptGen) axesToCentre() {
	isKey := map[uint16]bool{}
	for _, m := range g.d.Mappings {
		for _, sa := range m.Analog {
			for _, a := range sa.Axes {
				if a.Type == "key" {
					isKey[a.Code] = true
				}
			}
		}
	}
	for _, a := range g.axisList() {
		if isKey[a.Code] {
			if v, ok := g.neutralRaw(a); ok {
				g.out = append(g.out, model.Event{Kind: "abs", Handler: g.axH[a.Code], Code: a.Code, Value: v})
			}
		}
	}
}

// (a) a key-emulating axis is deflected, the mapping is switched to one where the axis has another
// type, the axis returns to rest.
func scenarioKeyAxisMappingSwitch(c *w1Case, r *simrt.Rng) {
	c.scenario = "keyaxis-held-across-mapping-switch"
	o := genOpts{nKeys: [2]int{1, 3}, nMaps: [2]int{2, 2}, notePool: []int{60, 64}, actions: []string{"mapping_up", "mapping_down"}, exitLen: -1,
		axes: 1, axisKinds: []string{"key"}, handlers: 1}
	c.d = baseDesc(r, o)
	a0 := &c.d.Mappings[0].Analog[0].Axes[0]
	a0.Min, a0.Max, a0.Deadzone, a0.DZCenter, a0.Flip = -1, 1, fp(0), false, false
	a1 := &c.d.Mappings[1].Analog[0].Axes[0]
	*a1 = model.AxisDesc{Name: a0.Name, Code: a0.Code, Type: "cc", CC: ip(7), Min: -1, Max: 1, Deadzone: fp(0)}
	if r.Chance(0.5) {
		c.d.Mappings[1].Analog = nil // or not mapped at all
	}
	c.d.Mapping = c.d.Mappings[0].Name
	up := c.d.Actions[0]
	dir := int32(1)
	if r.Chance(0.5) {
		dir = -1
	}
	c.script = []model.Event{
		{Kind: "abs", Code: a0.Code, Value: dir},
		{Kind: "key", Code: up.Code, Value: 1}, {Kind: "key", Code: up.Code, Value: 0},
		{Kind: "abs", Code: a0.Code, Value: 0},
	}
	c.unplugs = []int{-1}
}

// (b) the same key code on two sub-handlers of one device (repaired defect: the tracker was keyed by the code
// alone): random press/release interleavings of the two, with a third ordinary key and transposition in between.
func scenarioSameCodeTwoHandlers(c *w1Case, r *simrt.Rng) {
	c.scenario = "same-key-code-on-two-subhandlers"
	o := genOpts{nKeys: [2]int{2, 3}, nMaps: [2]int{1, 1}, notePool: []int{60, 64}, actions: []string{"octave_up", "octave_down", "channel_up"}, exitLen: -1, handlers: 2}
	c.d = baseDesc(r, o)
	m := &c.d.Mappings[0]
	var all []model.KeyDesc
	for _, sk := range m.Keys {
		all = append(all, sk.Keys...)
	}
	k := all[0]
	k2 := k
	k2.Note = []int{67, 60, 72}[r.Intn(3)]
	k2.NoteText = fmt.Sprint(k2.Note)
	other := all[len(all)-1]
	m.Keys = []model.SubKeys{{Sub: c.d.Handlers[0], Keys: []model.KeyDesc{k, other}}, {Sub: c.d.Handlers[1], Keys: []model.KeyDesc{k2}}}
	if r.Chance(0.5) {
		// further mappings that list only some of the handlers (and switches to them in some runs)
		for mi := 1; mi <= r.Range(1, 2); mi++ {
			m2 := model.MappingDesc{Name: fmt.Sprintf("M%d", mi)}
			for _, sk := range c.d.Mappings[0].Keys {
				if r.Chance(0.5) {
					m2.Keys = append(m2.Keys, model.SubKeys{Sub: sk.Sub, Keys: append([]model.KeyDesc(nil), sk.Keys...)})
				}
			}
			if len(m2.Keys) == 0 {
				m2.Keys = append(m2.Keys, model.SubKeys{Sub: c.d.Handlers[0], Keys: []model.KeyDesc{other}})
			}
			c.d.Mappings = append(c.d.Mappings, m2)
		}
		if r.Chance(0.5) {
			taken := map[uint16]bool{k.Code: true, other.Code: true}
			for _, a := range c.d.Actions {
				taken[a.Code] = true
			}
			for _, an := range []string{"mapping_up", "mapping_down"} {
				for _, kn := range actionKeyPool {
					if !taken[keyCode(kn)] {
						taken[keyCode(kn)] = true
						c.d.Actions = append(c.d.Actions, model.ActionKey{Name: kn, Code: keyCode(kn), Action: an})
						break
					}
				}
			}
		}
	}
	type hk struct {
		h    int
		code uint16
	}
	keys := []hk{{0, k.Code}, {1, k.Code}, {0, other.Code}}
	down := map[hk]bool{}
	n := r.Range(4, 14)
	for i := 0; i < n; i++ {
		if r.Chance(0.15) {
			a := c.d.Actions[r.Intn(len(c.d.Actions))]
			c.script = append(c.script, model.Event{Kind: "key", Code: a.Code, Value: 1}, model.Event{Kind: "key", Code: a.Code, Value: 0})
			continue
		}
		x := keys[r.Intn(len(keys))]
		v := int32(1)
		if down[x] {
			v = 0
		}
		down[x] = !down[x]
		c.script = append(c.script, model.Event{Kind: "key", Handler: x.h, Code: x.code, Value: v})
	}
	if r.Chance(0.7) {
		for _, x := range keys {
			if down[x] {
				c.script = append(c.script, model.Event{Kind: "key", Handler: x.h, Code: x.code, Value: 0})
			}
		}
		c.unplugs = []int{-1}
	} else {
		c.unplugs = []int{-1, r.Intn(len(c.script) + 1)}
	}
}

// (c) cc_learning is held while a key-emulating axis returns to centre.
func scenarioLearningGateKeyAxis(c *w1Case, r *simrt.Rng) {
	c.scenario = "cc-learning-held-while-keyaxis-returns"
	o := genOpts{nKeys: [2]int{1, 2}, nMaps: [2]int{1, 1}, notePool: []int{60}, actions: []string{"cc_learning"}, exitLen: -1, axes: 1, axisKinds: []string{"key"}, handlers: 1}
	c.d = baseDesc(r, o)
	a0 := &c.d.Mappings[0].Analog[0].Axes[0]
	a0.Min, a0.Max, a0.Deadzone, a0.DZCenter, a0.Flip = -1, 1, fp(0), false, false
	l := c.d.Actions[0]
	c.script = []model.Event{
		{Kind: "abs", Code: a0.Code, Value: 1},
		{Kind: "key", Code: l.Code, Value: 1},
		{Kind: "abs", Code: a0.Code, Value: 0},
		{Kind: "key", Code: l.Code, Value: 0},
	}
	c.unplugs = []int{-1}
}

func genC02(c *w1Case, r *simrt.Rng) {
	if r.Chance(0.05) {
		scenarioSameCodeTwoHandlers(c, r)
		c.scenario = ""
		return
	}
	acts := append([]string{}, transposeActions...)
	acts = append(acts, "multinote", "cc_learning")
	o := genOpts{nKeys: [2]int{2, 8}, nMaps: [2]int{1, 3}, notePool: intsRange(30, 100), offsets: true, actions: acts, exitLen: -1, defaults: true,
		unmapProb: 0.4, remapProb: 0.5, handlers: r.Range(1, 2)}
	if r.Chance(0.3) {
		// keys that share pitches (and pitches near the ends of the range, silenced by transposition): a release is
		// pinned to its own press also when another key holds the same pitch or when the press was silent
		o.notePool = []int{60, 60, 60, 62, 64, 121, 4}
		o.nKeys = [2]int{3, 6}
	}
	// in a share of the runs sticks and hats are around as well (key emulation, controllers): an action must stay
	// silent whatever the axes are doing, also a mapping switch away from a deflected key-emulating axis
	axes := 0
	if r.Chance(0.3) {
		axes = r.Range(1, 2)
		o.axes, o.axisKinds, o.axisKindsPerMapping = axes, []string{"key", "key1", "cc", "cc2", "none"}, true
		o.nMaps = [2]int{2, 3}
	}
	c.d = baseDesc(r, o)
	if axes > 0 {
		forceHatLike(c.d, r)
	}
	g := newScriptGen(r, c.d)
	n := r.Range(10, 60)
	for i := 0; i < n; i++ {
		if axes > 0 && r.Chance(0.25) {
			g.axisMove(r)
		} else {
			g.steps(1, 4, 6, 2, false)
		}
	}
	g.releaseAll()
	g.axesToCentre()
	c.script = g.out
	c.state = r.Chance(0.3)
	c.burst = axes == 0 && r.Chance(0.2)
}

func genC03(c *w1Case, r *simrt.Rng) {
	if r.Chance(0.05) {
		scenarioSameCodeTwoHandlers(c, r)
		c.scenario = ""
		return
	}
	pool := []int{60, 60, 60, 60, 61, 72}
	o := genOpts{nKeys: [2]int{2, 7}, nMaps: [2]int{1, 2}, notePool: pool, offsets: r.Chance(0.3),
		actions: []string{"octave_up", "octave_down", "semitone_up", "semitone_down", "channel_up", "channel_down"}, exitLen: -1, defaults: r.Chance(0.5),
		unmapProb: 0.1, remapProb: 0.3, handlers: 1}
	switch r.Pick(5, 4, 2) {
	case 1:
		// collisions through transposition: notes one semitone / one octave apart
		o.notePool = []int{60, 61, 72, 60, 48}
	case 2:
		// the ends of the pitch range on neighbouring channels must stay independent
		o.notePool = []int{0, 127, 0, 127, 1, 126}
		o.offsets = true
	}
	if r.Chance(0.3) {
		o.actions = append(o.actions, "panic")
	}
	if r.Chance(0.35) {
		// holders of a pitch across a mapping switch: keys of the main and of a named sub-handler, some of them
		// without a note (or with another note) in the other mapping
		o.nMaps = [2]int{2, 3}
		o.actions = append(o.actions, "mapping_up", "mapping_down")
		o.unmapProb = 0.3
		o.handlers = r.Range(1, 3)
	}
	c.d = baseDesc(r, o)
	g := newScriptGen(r, c.d)
	g.steps(r.Range(8, 50), 8, 2, 3, false)
	if r.Chance(0.7) {
		g.releaseAll()
	}
	c.script = g.out
	c.burst = r.Chance(0.2)
	// disconnect while several keys share a pitch
	if !c.burst && len(c.script) > 2 && r.Chance(0.5) {
		c.unplugs = []int{-1, r.Intn(len(c.script))}
	}
}

// genC04Hats: the state actions triggered by hat axes of type "action" (as the shipped gamepad configurations
// do) instead of keys; no action key exists in these runs, so the pair rule never applies.
func genC04Hats(c *w1Case, r *simrt.Rng) {
	o := genOpts{nKeys: [2]int{2, 6}, nMaps: [2]int{1, 3}, notePool: intsRange(0, 127), offsets: true, exitLen: -1, defaults: true,
		unmapProb: 0.2, remapProb: 0.4, handlers: 1}
	// mixed: action keys next to the hats (as the shipped gamepad files have: channel on buttons, octave and mapping
	// on hats). Never generated, because the statement speaks of "both keys of a pair": a key and a hat holding
	// the two halves of one pair or the same action; a hat deflected while a complete key pair is held (the
	// third action of canPressAction). A hat may be released at any time.
	mixed := r.Chance(0.4)
	if mixed {
		o.actions = append(append([]string{}, transposeActions...), "cc_learning")
	}
	c.d = baseDesc(r, o)
	pairs := [][2]string{{"octave_up", "octave_down"}, {"semitone_up", "semitone_down"}, {"channel_up", "channel_down"}, {"mapping_up", "mapping_down"}}
	names := pickN(r, hatAxes, r.Range(1, 3))
	var axes []model.AxisDesc
	for i, n := range names {
		pr := pairs[(i+r.Intn(4))%4]
		a := model.AxisDesc{Name: n, Code: absCode(n), Type: "action", Action: sp(pr[0]), ActionNeg: sp(pr[1]), Min: -1, Max: 1, Deadzone: fp(0), Flip: r.Chance(0.4)}
		if r.Chance(0.2) {
			a.Action, a.ActionNeg = sp(pr[1]), sp(pr[0])
		}
		if r.Chance(0.15) {
			a.ActionNeg = nil // one-sided
		}
		axes = append(axes, a)
	}
	// a stick may trigger actions as well as a hat: one deflection is one press, however many positions beyond half
	// travel it passes through (and it is over below 49 %)
	stick := map[uint16]bool{}
	if !mixed && r.Chance(0.3) {
		sn := stickAxes[r.Intn(len(stickAxes))]
		axes[0].Name, axes[0].Code, axes[0].Min, axes[0].Max = sn, absCode(sn), -32768, 32767
		stick[axes[0].Code] = true
	}
	for mi := range c.d.Mappings {
		c.d.Mappings[mi].Analog = []model.SubAnalog{{Sub: "", Axes: append([]model.AxisDesc(nil), axes...)}}
	}
	c.state = true
	g := newScriptGen(r, c.d)
	n := r.Range(8, 60)
	pos := map[uint16]int32{}
	// the action a hat position triggers (flip applied)
	hatAction := func(a model.AxisDesc, v int32) string {
		if a.Flip {
			v = -v
		}
		if v > 0 && a.Action != nil {
			return *a.Action
		}
		if v < 0 && a.ActionNeg != nil {
			return *a.ActionNeg
		}
		return ""
	}
	hatHeld := func() map[string]bool {
		h := map[string]bool{}
		for _, b := range axes {
			if x := hatAction(b, pos[b.Code]); x != "" {
				h[x] = true
			}
		}
		return h
	}
	keyOf := func(action string) *model.ActionKey {
		for i := range c.d.Actions {
			if c.d.Actions[i].Action == action {
				return &c.d.Actions[i]
			}
		}
		return nil
	}
	if mixed && len(c.d.Mappings) >= 2 && c.d.Mapping == c.d.Mappings[0].Name && r.Chance(0.3) {
		// directed opening (the state is still the configured one): a hat whose role differs between the mappings is
		// deflected in the first mapping, released in the second - where it is a controller or nothing at all -, and
		// back in the first mapping the other half of its pair is tapped on its key: that is one step, not a reset
		for ai, a := range axes {
			var v int32 = 1
			x := hatAction(a, v)
			if x == "" || strings.HasPrefix(x, "mapping") || r.Chance(0.3) {
				v = -1
				x = hatAction(a, v)
			}
			kp, up, down := keyOf(partnerOf(x)), keyOf("mapping_up"), keyOf("mapping_down")
			if x == "" || strings.HasPrefix(x, "mapping") || kp == nil || up == nil || down == nil {
				continue
			}
			m1 := &c.d.Mappings[1].Analog[0]
			if r.Chance(0.5) {
				m1.Axes = append(append([]model.AxisDesc(nil), m1.Axes[:ai]...), m1.Axes[ai+1:]...)
			} else {
				m1.Axes = append([]model.AxisDesc(nil), m1.Axes...)
				m1.Axes[ai] = model.AxisDesc{Name: a.Name, Code: a.Code, Type: "cc", CC: ip(70 + ai), Min: -1, Max: 1, Deadzone: fp(0)}
			}
			g.out = append(g.out, model.Event{Kind: "abs", Code: a.Code, Value: v})
			tapKey := func(k *model.ActionKey) {
				if g.pressAction(*k) {
					g.release(k.Code)
				}
			}
			tapKey(up)
			g.out = append(g.out, model.Event{Kind: "abs", Code: a.Code, Value: 0})
			tapKey(down)
			tapKey(kp)
			break
		}
	}
	for i := 0; i < n; i++ {
		switch {
		case mixed && len(g.actDown) == 0 && r.Chance(0.12):
			// directed: an action held by its key while a hat that triggers the same action moves through its empty
			// direction and back, then the other key of the pair
			for _, a := range axes {
				if (a.Action == nil) == (a.ActionNeg == nil) || pos[a.Code] != 0 {
					continue
				}
				x := hatAction(a, 1) + hatAction(a, -1)
				empty := int32(1)
				if hatAction(a, 1) != "" {
					empty = -1
				}
				kx, kp := keyOf(x), keyOf(partnerOf(x))
				if kx == nil || kp == nil || len(hatHeld()) != 0 {
					continue
				}
				if g.pressAction(*kx) {
					g.out = append(g.out, model.Event{Kind: "abs", Code: a.Code, Value: empty})
					if r.Chance(0.5) {
						g.out = append(g.out, model.Event{Kind: "abs", Code: a.Code, Value: 0})
					} else {
						pos[a.Code] = empty
					}
					if g.pressAction(*kp) {
						g.release(kp.Code)
					}
					g.release(kx.Code)
				}
				break
			}
		case r.Chance(0.55):
			a := axes[r.Intn(len(axes))]
			v := []int32{-1, 0, 1}[r.Intn(3)]
			if g.nOct+g.nSemi > 150 {
				v = 0
			}
			if x := hatAction(a, v); mixed && x != "" && (!g.canPressAction(x) || g.actDown[x] || g.actDown[partnerOf(x)]) {
				v = 0
			}
			// one hat at a time: bring the others back to rest first
			for _, b := range axes {
				if b.Code != a.Code && pos[b.Code] != 0 {
					g.out = append(g.out, model.Event{Kind: "abs", Code: b.Code, Value: 0})
					pos[b.Code] = 0
				}
			}
			g.nOct++
			if stick[a.Code] && v != 0 {
				// through some positions on that side: beyond half travel, or short of it (well outside the 49-50 % band)
				v *= []int32{9000, 19000, 19661, 26000, 32767}[r.Intn(5)]
				if v == -32767 && r.Chance(0.5) {
					v = -32768
				}
			}
			g.out = append(g.out, model.Event{Kind: "abs", Code: a.Code, Value: v})
			pos[a.Code] = v
		case mixed && r.Chance(0.5):
			ak := c.d.Actions[r.Intn(len(c.d.Actions))]
			if g.down[ak.Code] {
				g.release(ak.Code)
			} else if hh := hatHeld(); !hh[ak.Action] && !hh[partnerOf(ak.Action)] {
				if g.pressAction(ak) && r.Chance(0.4) {
					g.release(ak.Code)
				}
			}
		default:
			g.steps(1, 1, 0, 1, false)
		}
	}
	for _, b := range axes {
		g.out = append(g.out, model.Event{Kind: "abs", Code: b.Code, Value: 0})
	}
	g.releaseAll()
	c.script = g.out
}

func genC04(c *w1Case, r *simrt.Rng, thorough bool) {
	if r.Chance(0.12) {
		genC04Hats(c, r)
		return
	}
	o := genOpts{nKeys: [2]int{3, 10}, nMaps: [2]int{1, 3}, notePool: intsRange(0, 127), offsets: true, actions: transposeActions, exitLen: -1, defaults: true,
		unmapProb: 0.2, remapProb: 0.5, handlers: 1}
	if r.Chance(0.2) {
		o.dupActions = r.Range(1, 2) // the same action on two keys: each press is a press
	}
	c.d = baseDesc(r, o)
	c.state = true
	g := newScriptGen(r, c.d)
	switch r.Pick(5, 3, 2) {
	case 0:
		g.steps(r.Range(10, 60), 4, 6, 2, false)
	case 1:
		// a long run of one action (reaching |octave| >= 11 or |semitone| up to 127), notes in between
		var ak model.ActionKey
		for _, a := range c.d.Actions {
			if a.Action == []string{"octave_up", "octave_down", "semitone_up", "semitone_down", "channel_up", "channel_down"}[r.Intn(6)] {
				ak = a
			}
		}
		n := r.Range(8, 30)
		if ak.Action == "semitone_up" || ak.Action == "semitone_down" {
			n = r.Range(20, 105)
		}
		for i := 0; i < n && ak.Action != ""; i++ {
			if g.pressAction(ak) {
				g.release(ak.Code)
			}
			if r.Chance(0.35) {
				g.steps(1, 1, 0, 0, false)
			}
		}
		g.steps(r.Range(2, 10), 5, 2, 2, false)
	case 2:
		// up/down pairs held together (reset), in both orders, with notes between
		for i := 0; i < r.Range(2, 8); i++ {
			g.steps(r.Range(1, 6), 3, 5, 2, false)
			a := c.d.Actions[r.Intn(len(c.d.Actions))]
			var b model.ActionKey
			for _, x := range c.d.Actions {
				if x.Action == partnerOf(a.Action) {
					b = x
				}
			}
			for len(g.actDown) > 0 {
				for _, x := range c.d.Actions {
					if g.down[x.Code] {
						g.release(x.Code)
					}
				}
			}
			if g.pressAction(a) && g.pressAction(b) {
				if r.Chance(0.5) {
					g.steps(1, 1, 0, 0, false)
				}
				g.release(a.Code)
				g.release(b.Code)
			}
		}
	}
	g.releaseAll()
	c.script = g.out
}

func genC13(c *w1Case, r *simrt.Rng) {
	acts := append([]string{"panic"}, transposeActions...)
	o := genOpts{nKeys: [2]int{2, 10}, nMaps: [2]int{1, 2}, notePool: []int{60, 60, 62, 64, 72, 48}, offsets: r.Chance(0.5), actions: acts, exitLen: -1, defaults: true,
		unmapProb: 0.2, remapProb: 0.3, handlers: 1}
	// panic on a hat in a share of the runs (one direction, or both); in further mappings the same hat is a
	// controller or is not mapped at all, so a deflection may begin in one mapping and end in another
	hat := r.Chance(0.25)
	if hat {
		o.nMaps = [2]int{1, 3}
	}
	c.d = baseDesc(r, o)
	var hatAxis model.AxisDesc
	if hat {
		hn := hatAxes[r.Intn(len(hatAxes))]
		hatAxis = model.AxisDesc{Name: hn, Code: absCode(hn), Type: "action", Action: sp("panic"), Min: -1, Max: 1, Deadzone: fp(0), Flip: r.Chance(0.3)}
		if r.Chance(0.3) {
			hatAxis.ActionNeg = sp("panic")
		}
		for mi := range c.d.Mappings {
			ax := hatAxis
			if mi > 0 {
				switch r.Intn(3) {
				case 0:
					ax = model.AxisDesc{Name: hn, Code: hatAxis.Code, Type: "cc", CC: ip(20 + mi), Min: -1, Max: 1, Deadzone: fp(0)}
				case 1:
					continue // not mapped here
				}
			}
			c.d.Mappings[mi].Analog = []model.SubAnalog{{Sub: "", Axes: []model.AxisDesc{ax}}}
		}
	}
	g := newScriptGen(r, c.d)
	pk := c.d.Actions[0]
	n := r.Range(6, 40)
	hatPos := int32(0)
	midiIn := r.Chance(0.3)
	for i := 0; i < n; i++ {
		switch {
		case hat && len(c.d.Mappings) > 1 && hatPos == 0 && len(g.actDown) == 0 && r.Chance(0.08):
			// a deflection that begins in one mapping and ends in another, then the next one
			tapAct := func(name string) {
				for _, ak := range c.d.Actions {
					if ak.Action == name && g.pressAction(ak) {
						g.release(ak.Code)
					}
				}
			}
			v := []int32{-1, 1}[r.Intn(2)]
			away, back := "mapping_up", "mapping_down"
			if r.Chance(0.5) {
				away, back = back, away
			}
			g.out = append(g.out, model.Event{Kind: "abs", Code: hatAxis.Code, Value: v})
			tapAct(away)
			g.out = append(g.out, model.Event{Kind: "abs", Code: hatAxis.Code, Value: 0})
			tapAct(back)
			g.out = append(g.out, model.Event{Kind: "abs", Code: hatAxis.Code, Value: v}, model.Event{Kind: "abs", Code: hatAxis.Code, Value: 0})
		case hat && r.Chance(0.3):
			v := []int32{-1, 0, 1, 0}[r.Intn(4)]
			// (panic has no partner: a hat may trigger it while its key is down or a pair is held - every trigger is
			// a panic of its own)
			if v != hatPos {
				hatPos = v
				g.out = append(g.out, model.Event{Kind: "abs", Code: hatAxis.Code, Value: v})
			}
		case midiIn && r.Chance(0.15):
			// MIDI input of every kind while the device plays: notes, controllers, pitch bend, programme changes, clock
			msgs := [][]byte{{0x90, byte(r.Range(0, 127)), byte(r.Range(0, 127))}, {0x80, byte(r.Range(0, 127)), 0}, {0xB0, byte(r.Range(0, 127)), byte(r.Range(0, 127))},
				{0xE0, byte(r.Range(0, 127)), byte(r.Range(0, 127))}, {0xC0, byte(r.Range(0, 127))}, {0xF8}, {0xD0, 5}, {0xB0, 123, 0}}
			b := msgs[r.Intn(len(msgs))]
			if b[0] < 0xF0 {
				b[0] |= byte(r.Range(0, 15))
			}
			g.out = append(g.out, model.Event{Kind: "midiin", Bytes: b})
		case r.Chance(0.15):
			if !g.down[pk.Code] && !g.canPressAction("panic") {
				// "panic injected at every point of every key history": also while an up/down pair is held
				g.key(pk.Code, 1)
				g.actDown["panic"] = true
				g.actCnt["panic"]++
				g.release(pk.Code)
				continue
			}
			if g.pressAction(pk) && r.Chance(0.7) {
				g.release(pk.Code)
			}
		case hatPos != 0:
			// as steps(), without the panic key
			switch r.Pick(6, 2, 2) {
			case 0:
				if k := g.noteK[r.Intn(len(g.noteK))]; g.down[k.Code] {
					g.release(k.Code)
				} else {
					g.key(k.Code, 1)
				}
			case 1:
				ak := c.d.Actions[1+r.Intn(len(c.d.Actions)-1)]
				if g.down[ak.Code] {
					g.release(ak.Code)
				} else if g.pressAction(ak) && r.Chance(0.6) {
					g.release(ak.Code)
				}
			case 2:
				if len(g.order) > 0 {
					g.release(g.order[r.Intn(len(g.order))])
				}
			}
		default:
			g.steps(1, 6, 2, 2, false)
		}
	}
	if hat && hatPos != 0 {
		g.out = append(g.out, model.Event{Kind: "abs", Code: hatAxis.Code, Value: 0})
	}
	g.releaseAll()
	g.steps(r.Range(2, 8), 5, 1, 2, false)
	g.releaseAll()
	c.script = g.out
	c.state = r.Chance(0.5)
	c.burst = !hat && !midiIn && r.Chance(0.4)
}

func genC14(c *w1Case, r *simrt.Rng) {
	acts := []string{"panic", "octave_up", "octave_down", "channel_up"}
	o := genOpts{nKeys: [2]int{2, 6}, nMaps: [2]int{1, 2}, notePool: intsRange(40, 80), actions: acts, exitLen: r.Range(0, 3), exitShared: r.Chance(0.7), defaults: r.Chance(0.5),
		unmapProb: 0.2, remapProb: 0.2, handlers: r.Range(1, 2), edgeKeys: r.Chance(0.4)}
	if r.Chance(0.1) {
		o.exitLen = -1
	}
	c.d = baseDesc(r, o)
	c.state = true
	g := newScriptGen(r, c.d)
	// make the exit keys pressable by the generator even when they are neither notes nor actions; the keys of
	// one sequence may sit on different sub-handlers of the device (ALT on the main handler, a media key on
	// "Consumer Control")
	for _, k := range c.d.Exit {
		if _, ok := g.handler[k.Code]; !ok {
			g.handler[k.Code] = r.Intn(len(c.d.Handlers))
		}
	}
	for _, a := range c.d.Actions {
		if _, ok := g.handler[a.Code]; !ok {
			g.handler[a.Code] = r.Intn(len(c.d.Handlers))
		}
	}
	// keys that were already held when the device was opened: the first thing the kernel reports is a release
	if r.Chance(0.2) {
		for i := 0; i < r.Range(1, 2); i++ {
			var code uint16
			if len(c.d.Exit) > 0 && r.Chance(0.7) {
				code = c.d.Exit[r.Intn(len(c.d.Exit))].Code
			} else if len(g.noteK) > 0 {
				code = g.noteK[r.Intn(len(g.noteK))].Code
			} else {
				continue
			}
			g.out = append(g.out, model.Event{Kind: "key", Handler: g.handler[code], Code: code, Value: 0})
		}
	}
	n := r.Range(8, 50)
	for i := 0; i < n; i++ {
		if len(c.d.Exit) > 0 && r.Chance(0.45) {
			k := c.d.Exit[r.Intn(len(c.d.Exit))]
			if g.down[k.Code] {
				g.release(k.Code)
			} else if a := g.actionOf(k.Code); a != "" {
				for _, ak := range c.d.Actions {
					if ak.Code == k.Code {
						g.pressAction(ak)
					}
				}
			} else {
				g.key(k.Code, 1)
			}
			// once the sequence is complete the next event releases one of its keys (further
			// presses while it stays held are not covered by the statement)
			if g.exitAllDown() {
				if last := len(g.out) - 1; last >= 0 && g.out[last].Kind == "key" && g.out[last].Value == 1 && r.Chance(0.3) {
					// at this press the one-slot signal channel still holds a signal nobody has read yet (a SIGTERM that
					// arrived a moment ago, or the previous completion): the press must raise its signal all the same
					if c.sigFull == nil {
						c.sigFull = map[int]bool{}
					}
					c.sigFull[last] = true
				}
				k := c.d.Exit[r.Intn(len(c.d.Exit))]
				g.release(k.Code)
			}
		} else {
			g.steps(1, 5, 3, 2, true)
		}
	}
	g.releaseAll()
	c.script = g.out
}

func (g *scriptGen) exitAllDown() bool {
	if len(g.d.Exit) == 0 {
		return false
	}
	for _, k := range g.d.Exit {
		if !g.down[k.Code] {
			return false
		}
	}
	return true
}

var _ = big.NewRat

// genSandwich draws "hold - change state - release - undo" histories: something is held (a note key or a
// deflected key-emulating axis), a random subset of state-changing actions is applied (taps, or
// cc_learning pressed and kept down), the held thing is released, then the kept-down actions are released.
// That is the shape behind every stuck-note defect seen so far.
func genSandwich(c *w1Case, r *simrt.Rng) {
	acts := append([]string{}, transposeActions...)
	acts = append(acts, "panic", "cc_learning", "multinote")
	o := genOpts{prop: "C01", nKeys: [2]int{1, 4}, nMaps: [2]int{2, 3}, notePool: []int{60, 62, 64, 60}, offsets: r.Chance(0.4), actions: acts, exitLen: -1,
		defaults: true, unmapProb: 0.4, remapProb: 0.4, axes: r.Range(1, 2), axisKinds: []string{"key", "key1", "cc", "cc2", "none", "key"}, axisKindsPerMapping: true, handlers: 1}
	c.d = baseDesc(r, o)
	forceHatLike(c.d, r)
	g := newScriptGen(r, c.d)
	axes := g.axisList()
	rounds := r.Range(1, 4)
	for i := 0; i < rounds; i++ {
		// hold
		var heldAxes []model.AxisDesc
		nh := r.Range(1, 2)
		for h := 0; h < nh; h++ {
			if len(axes) > 0 && r.Chance(0.5) {
				a := axes[r.Intn(len(axes))]
				v := a.Max
				if r.Chance(0.5) {
					v = a.Min
				}
				g.out = append(g.out, model.Event{Kind: "abs", Code: a.Code, Value: v})
				heldAxes = append(heldAxes, a)
			} else if len(g.noteK) > 0 {
				k := g.noteK[r.Intn(len(g.noteK))]
				if !g.down[k.Code] {
					g.key(k.Code, 1)
				}
			}
		}
		// change
		p := r.Perm(len(c.d.Actions))
		for _, ai := range p {
			if !r.Chance(0.4) {
				continue
			}
			ak := c.d.Actions[ai]
			if g.pressAction(ak) {
				if !(ak.Action == "cc_learning" && r.Chance(0.7)) && !r.Chance(0.15) {
					g.release(ak.Code)
				}
			}
		}
		// release what is held
		for _, a := range heldAxes {
			if v, ok := g.neutralRaw(a); ok && r.Chance(0.8) {
				// the physical centre when it is neutral
				g.out = append(g.out, model.Event{Kind: "abs", Code: a.Code, Value: v})
			} else {
				g.out = append(g.out, model.Event{Kind: "abs", Code: a.Code, Value: g.safeRaw(r, a)})
			}
		}
		for _, code := range append([]uint16(nil), g.order...) {
			if g.actionOf(code) == "" {
				g.release(code)
			}
		}
		// undo
		for _, code := range append([]uint16(nil), g.order...) {
			g.release(code)
		}
		if r.Chance(0.3) {
			g.steps(r.Range(1, 4), 3, 3, 2, false)
		}
	}
	g.releaseAll()
	g.axesToCentre()
	c.script = g.out
}
