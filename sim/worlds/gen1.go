package worlds

import (
	"fmt"
	"sort"

	"github.com/gethiox/HIDI/verifsim/model"
	"github.com/gethiox/HIDI/verifsim/simrt"
	"github.com/holoplot/go-evdev"
)

// key pools (names as the configuration files write them)
var noteKeyPool = []string{"KEY_Z", "KEY_S", "KEY_X", "KEY_D", "KEY_C", "KEY_V", "KEY_G", "KEY_B", "KEY_H", "KEY_N", "KEY_J", "KEY_M",
	"KEY_Q", "KEY_2", "KEY_W", "KEY_3", "KEY_E", "KEY_R", "KEY_5", "KEY_T", "KEY_6", "KEY_Y", "KEY_7", "KEY_U", "KEY_I", "KEY_9", "KEY_O", "KEY_0", "KEY_P",
	"KEY_COMMA", "KEY_DOT", "KEY_SLASH", "KEY_SEMICOLON", "KEY_L", "KEY_K", "KEY_A", "KEY_F", "KEY_TAB", "KEY_GRAVE", "KEY_1", "KEY_4", "KEY_8"}
var actionKeyPool = []string{"KEY_F1", "KEY_F2", "KEY_F3", "KEY_F4", "KEY_F5", "KEY_F6", "KEY_F7", "KEY_F8", "KEY_F9", "KEY_F10", "KEY_F11", "KEY_F12",
	"KEY_ESC", "KEY_LEFTALT", "KEY_RIGHTALT", "KEY_LEFTCTRL", "KEY_RIGHTCTRL", "KEY_SPACE", "KEY_ENTER", "KEY_BACKSPACE", "KEY_CAPSLOCK", "KEY_LEFTSHIFT"}

// keys at the edges of the key-code space (gamepad d-pad buttons of xpad devices, KEY_MAX, raw hex codes)
var edgeKeyPool = []string{"BTN_TRIGGER_HAPPY1", "BTN_TRIGGER_HAPPY2", "BTN_TRIGGER_HAPPY40", "KEY_MAX", "x2fe", "x300", "xffff", "x1", "BTN_0", "KEY_MICMUTE", "x2c1"}
var padKeyPool = []string{"BTN_A", "BTN_B", "BTN_X", "BTN_Y", "BTN_TL", "BTN_TR", "BTN_SELECT", "BTN_START", "BTN_THUMBL", "BTN_THUMBR"}
var stickAxes = []string{"ABS_X", "ABS_Y", "ABS_RX", "ABS_RY", "ABS_Z", "ABS_RZ", "ABS_THROTTLE", "ABS_RUDDER", "ABS_WHEEL", "ABS_GAS"}
var hatAxes = []string{"ABS_HAT0X", "ABS_HAT0Y", "ABS_HAT1X", "ABS_HAT1Y"}

var allActions = []string{"octave_up", "octave_down", "semitone_up", "semitone_down", "channel_up", "channel_down", "mapping_up", "mapping_down", "panic", "cc_learning", "multinote"}

func keyCode(name string) uint16 {
	if len(name) > 1 && name[0] == 'x' {
		var v uint16
		if _, err := fmt.Sscanf(name[1:], "%x", &v); err == nil {
			return v
		}
	}
	c, ok := evdev.KEYFromString[name]
	if !ok {
		panic("harness: unknown key name " + name)
	}
	return uint16(c)
}

func absCode(name string) uint16 {
	c, ok := evdev.ABSFromString[name]
	if !ok {
		panic("harness: unknown abs name " + name)
	}
	return uint16(c)
}

func ip(i int) *int         { return &i }
func fp(f float64) *float64 { return &f }
func sp(s string) *string   { return &s }

// pickN draws n distinct entries of pool.
func pickN(r *simrt.Rng, pool []string, n int) []string {
	if n > len(pool) {
		n = len(pool)
	}
	p := r.Perm(len(pool))
	out := make([]string, n)
	for i := 0; i < n; i++ {
		out[i] = pool[p[i]]
	}
	return out
}

func noteText(r *simrt.Rng, n int) string {
	if r.Chance(0.5) {
		if r.Chance(0.1) {
			return fmt.Sprintf("%03d", n) // decimal, however many leading zeros
		}
		return fmt.Sprint(n)
	}
	s := model.NoteName(n)
	switch r.Intn(3) {
	case 0:
		return lower(s)
	case 1:
		return s
	}
	return lower(s)
}

func lower(s string) string {
	b := []byte(s)
	for i, c := range b {
		if c >= 'A' && c <= 'Z' {
			b[i] = c + 32
		}
	}
	return string(b)
}

var modes = []string{"off", "no_repeat", "interrupt", "retrigger"}

type genOpts struct {
	prop                string
	mode                string // "" = draw
	nKeys               [2]int
	nMaps               [2]int
	notePool            []int // base notes to draw from (small pool => collisions)
	offsets             bool
	actions             []string
	exitLen             int // -1 = no exit_sequence key at all
	exitShared          bool
	defaults            bool // draw non-neutral defaults
	unmapProb           float64
	remapProb           float64
	axes                int
	axisKinds           []string // cc, cc2 (bidirectional), pitch_bend, key, key1 (one sided), none
	axisKindsPerMapping bool     // draw the kind of every axis anew in every further mapping
	edgeNotes           bool     // key-emulating axes may use notes next to 0 / 127
	analogSubs          bool     // spread the axes over the sub-handlers (one analog section each)
	edgeKeys            bool     // exit sequences may use keys at the edges of the key-code space
	handlers            int
	dupActions          int // so many actions get a second key
}

// baseDesc draws a configuration description.
func baseDesc(r *simrt.Rng, o genOpts) *model.Desc {
	d := &model.Desc{Colors: map[string]int{}}
	d.Mode = o.mode
	if d.Mode == "" {
		d.Mode = modes[r.Intn(4)]
	}
	d.Handlers = []string{""}
	for i := 1; i < o.handlers; i++ {
		d.Handlers = append(d.Handlers, []string{"Mouse", "Consumer Control", "System Control"}[(i-1)%3])
	}
	nMaps := r.Range(o.nMaps[0], o.nMaps[1])
	nKeys := r.Range(o.nKeys[0], o.nKeys[1])
	keyNames := pickN(r, noteKeyPool, nKeys)
	// actions
	actKeys := pickN(r, actionKeyPool, len(o.actions)+3+o.dupActions)
	for i, a := range o.actions {
		d.Actions = append(d.Actions, model.ActionKey{Name: actKeys[i], Code: keyCode(actKeys[i]), Action: a})
	}
	for i := 0; i < o.dupActions && len(o.actions) > 0; i++ {
		n := actKeys[len(o.actions)+3+i]
		d.Actions = append(d.Actions, model.ActionKey{Name: n, Code: keyCode(n), Action: o.actions[r.Intn(len(o.actions))]})
	}
	// exit sequence
	if o.exitLen >= 0 {
		d.HasExit = true
		var pool []string
		pool = append(pool, actKeys[len(o.actions):]...)
		if o.edgeKeys {
			pool = append(pool, pickN(r, edgeKeyPool, 3)...)
		}
		if o.exitShared {
			for _, a := range d.Actions {
				pool = append(pool, a.Name)
			}
			pool = append(pool, keyNames...)
		}
		for _, n := range pickN(r, pool, o.exitLen) {
			d.Exit = append(d.Exit, model.ActionKey{Name: n, Code: keyCode(n)})
		}
	}
	// defaults
	d.HasChan, d.HasVel = true, true
	d.Channel, d.Velocity = 1, 64
	if o.defaults {
		d.Octave = r.Range(-2, 2)
		d.Semitone = r.Range(-3, 3)
		d.Channel = r.Range(1, 16)
		switch r.Intn(4) {
		case 0:
			d.Velocity = 0 // means 64
		case 1:
			d.HasVel = false
			d.Velocity = 0
		default:
			d.Velocity = r.Range(1, 127)
		}
	}
	for _, c := range []string{"white", "black", "c", "unavailable", "other", "active", "active_external"} {
		d.Colors[c] = r.Intn(1 << 24)
	}
	// base assignment of notes to keys
	type asg struct {
		note, off int
	}
	base := map[string]asg{}
	for _, k := range keyNames {
		a := asg{note: o.notePool[r.Intn(len(o.notePool))]}
		if o.offsets && r.Chance(0.4) {
			a.off = r.Range(0, 15)
		}
		base[k] = a
	}
	axisNames := pickN(r, stickAxes, o.axes)
	// mapping names that differ in letter case only are different names
	caseNames := nMaps >= 2 && nMaps <= 3 && r.Chance(0.08)
	for mi := 0; mi < nMaps; mi++ {
		m := model.MappingDesc{Name: fmt.Sprintf("M%d", mi)}
		if caseNames {
			m.Name = []string{"piano", "Piano", "PIANO"}[mi]
		}
		subs := map[string]*model.SubKeys{}
		for ki, k := range keyNames {
			if mi > 0 && r.Chance(o.unmapProb) {
				continue
			}
			a := base[k]
			if mi > 0 && r.Chance(o.remapProb) {
				a = asg{note: o.notePool[r.Intn(len(o.notePool))]}
				if o.offsets && r.Chance(0.4) {
					a.off = r.Range(0, 15)
				}
			}
			sub := d.Handlers[ki%len(d.Handlers)]
			sk := subs[sub]
			if sk == nil {
				sk = &model.SubKeys{Sub: sub}
				subs[sub] = sk
			}
			kd := model.KeyDesc{Name: k, Code: keyCode(k), Note: a.note, NoteText: noteText(r, a.note), Offset: a.off, HasOff: a.off != 0 || r.Chance(0.2)}
			if r.Chance(0.15) {
				kd.Name = fmt.Sprintf("x%x", kd.Code)
			}
			sk.Keys = append(sk.Keys, kd)
		}
		var subNames []string
		for s := range subs {
			subNames = append(subNames, s)
		}
		sort.Strings(subNames)
		for _, s := range subNames {
			m.Keys = append(m.Keys, *subs[s])
		}
		if len(axisNames) > 0 {
			sa := model.SubAnalog{Sub: ""}
			if r.Chance(0.7) {
				sa.DefaultDZ = fp([]float64{0, 0.05, 0.1, 0.15, 0.2, 0.25, 1.0 / 3, 0.5}[r.Intn(8)])
			}
			ccPerm := r.Perm(120)
			for ai, an := range axisNames {
				kind := o.axisKinds[ai%len(o.axisKinds)]
				if o.axisKindsPerMapping && mi > 0 {
					kind = o.axisKinds[r.Intn(len(o.axisKinds))]
				}
				if kind == "none" {
					continue
				}
				ax := drawAxis(r, an, kind, ai)
				if ax.CC != nil {
					ax.CC = ip(ccPerm[(ai*2+mi*40)%120])
				}
				if ax.CCNeg != nil {
					ax.CCNeg = ip(ccPerm[(ai*2+1+mi*40)%120])
				}
				if o.edgeNotes && ax.Type == "key" && r.Chance(0.5) {
					edge := []int{0, 1, 2, 3, 5, 122, 124, 125, 126, 127}
					ax.Note = ip(edge[r.Intn(len(edge))])
					if ax.NoteNeg != nil {
						n := edge[r.Intn(len(edge))]
						if n == *ax.Note {
							n = 64
						}
						ax.NoteNeg = ip(n)
					}
				}
				sa.Axes = append(sa.Axes, ax)
			}
			if o.analogSubs && len(d.Handlers) > 1 {
				// one analog section per sub-handler; an axis code always belongs to the same sub-handler
				pos := map[uint16]int{}
				for ai, an := range axisNames {
					pos[absCode(an)] = ai
				}
				parts := make([]model.SubAnalog, len(d.Handlers))
				for hi := range parts {
					parts[hi] = model.SubAnalog{Sub: d.Handlers[hi]}
					if hi == 0 {
						parts[hi].DefaultDZ = sa.DefaultDZ
					} else if r.Chance(0.5) {
						parts[hi].DefaultDZ = fp([]float64{0, 0.1, 0.25}[r.Intn(3)])
					}
				}
				for _, ax := range sa.Axes {
					hi := pos[ax.Code] % len(d.Handlers)
					parts[hi].Axes = append(parts[hi].Axes, ax)
				}
				for _, p := range parts {
					if len(p.Axes) > 0 || r.Chance(0.3) {
						m.Analog = append(m.Analog, p)
					}
				}
			} else {
				m.Analog = append(m.Analog, sa)
			}
		}
		d.Mappings = append(d.Mappings, m)
	}
	d.Mapping = d.Mappings[0].Name
	if o.defaults {
		d.Mapping = d.Mappings[r.Intn(nMaps)].Name
	}
	return d
}

type absRange struct{ min, max int32 }

var stickRanges = []absRange{{0, 255}, {-128, 127}, {-32768, 32767}, {0, 65535}, {0, 1023}, {-127, 127}}

func drawAxis(r *simrt.Rng, name, kind string, idx int) model.AxisDesc {
	a := model.AxisDesc{Name: name, Code: absCode(name)}
	rg := stickRanges[r.Intn(len(stickRanges))]
	a.Min, a.Max = rg.min, rg.max
	a.Flip = r.Chance(0.35)
	if r.Chance(0.4) {
		a.Deadzone = fp([]float64{0, 0.05, 0.1, 0.15, 0.2, 0.25, 1.0 / 3, 0.5, float64(r.Intn(60)) / 100}[r.Intn(9)])
		if r.Chance(0.03) {
			a.Deadzone = fp(1.0) // the top of the documented range: the whole travel is deadzone
		}
	}
	switch kind {
	case "cc":
		a.Type = "cc"
		a.CC = ip(idx * 2 % 120)
		if a.Min == 0 && r.Chance(0.3) {
			a.DZCenter = true
		}
	case "cc2":
		a.Type = "cc"
		a.CC = ip(idx*2 + 20)
		a.CCNeg = ip(idx*2 + 21)
		if a.Min == 0 && r.Chance(0.5) {
			a.DZCenter = true
		}
		if r.Chance(0.4) {
			a.HasOff, a.Off = true, r.Range(0, 15)
		}
		if r.Chance(0.4) {
			a.HasOffNeg, a.OffNeg = true, r.Range(0, 15)
		}
	case "pitch_bend":
		a.Type = "pitch_bend"
		if a.Min == 0 && r.Chance(0.4) {
			a.DZCenter = true
		}
		if r.Chance(0.3) {
			a.HasOff, a.Off = true, r.Range(0, 15)
		}
	case "action", "action1":
		a.Type = "action"
		acts := []string{"octave_up", "octave_down", "semitone_up", "semitone_down", "channel_up", "channel_down", "mapping_up", "mapping_down", "panic", "cc_learning", "multinote"}
		a.Action = sp(acts[r.Intn(len(acts))])
		if kind == "action" {
			a.ActionNeg = sp(acts[r.Intn(len(acts))])
		}
	case "key", "key1":
		a.Type = "key"
		a.Note = ip(r.Range(40, 80))
		if kind == "key" {
			n := r.Range(40, 80)
			for n == *a.Note {
				n = r.Range(40, 80)
			}
			a.NoteNeg = ip(n)
		}
		if a.Min == 0 && r.Chance(0.3) {
			a.DZCenter = true
		}
	}
	// leftovers of an earlier edit: fields that are valid TOML for the entry but meaningless for its type
	if r.Chance(0.15) {
		switch a.Type {
		case "key":
			if r.Chance(0.5) {
				a.CCNeg = ip(r.Range(0, 119))
			} else {
				a.ActionNeg = sp("octave_down")
			}
			if r.Chance(0.3) {
				a.CC = ip(r.Range(0, 119))
			}
		case "cc":
			if r.Chance(0.5) {
				a.NoteNeg = ip(r.Range(0, 127))
			} else {
				a.ActionNeg = sp("panic")
			}
		case "pitch_bend":
			a.CCNeg = ip(r.Range(0, 119))
			if r.Chance(0.5) {
				a.NoteNeg = ip(r.Range(0, 127))
			}
		}
	}
	return a
}

// scriptGen draws key histories in which press and release of every key alternate.
type scriptGen struct {
	r       *simrt.Rng
	d       *model.Desc
	down    map[uint16]bool
	order   []uint16 // down keys in press order
	noteK   []model.KeyDesc
	handler map[uint16]int
	actDown map[string]bool
	actCnt  map[string]int // keys held per action (an action may have two keys)
	out     []model.Event
	nOct    int // presses of octave / semitone actions so far (upper bound of the excursion)
	nSemi   int
	axH     map[uint16]int // handler index of every axis code
}

func newScriptGen(r *simrt.Rng, d *model.Desc) *scriptGen {
	g := &scriptGen{r: r, d: d, down: map[uint16]bool{}, handler: map[uint16]int{}, actDown: map[string]bool{}, actCnt: map[string]int{}}
	g.axH = map[uint16]int{}
	for _, m := range d.Mappings {
		for _, sa := range m.Analog {
			for i, hs := range d.Handlers {
				if hs == sa.Sub {
					for _, a := range sa.Axes {
						g.axH[a.Code] = i
					}
				}
			}
		}
	}
	seen := map[uint16]bool{}
	for _, m := range d.Mappings {
		for _, sk := range m.Keys {
			h := 0
			for i, s := range d.Handlers {
				if s == sk.Sub {
					h = i
				}
			}
			for _, k := range sk.Keys {
				if !seen[k.Code] {
					seen[k.Code] = true
					g.noteK = append(g.noteK, k)
					g.handler[k.Code] = h
				}
			}
		}
	}
	return g
}

func (g *scriptGen) key(code uint16, v int32) {
	g.out = append(g.out, model.Event{Kind: "key", Handler: g.handler[code], Code: code, Value: v})
	if v == 1 {
		g.down[code] = true
		g.order = append(g.order, code)
	} else {
		delete(g.down, code)
		for i, c := range g.order {
			if c == code {
				g.order = append(g.order[:i], g.order[i+1:]...)
				break
			}
		}
	}
}

func (g *scriptGen) actionOf(code uint16) string {
	for _, a := range g.d.Actions {
		if a.Code == code {
			return a.Action
		}
	}
	return ""
}

func partnerOf(a string) string {
	m := map[string]string{"octave_up": "octave_down", "octave_down": "octave_up", "semitone_up": "semitone_down", "semitone_down": "semitone_up",
		"channel_up": "channel_down", "channel_down": "channel_up", "mapping_up": "mapping_down", "mapping_down": "mapping_up"}
	return m[a]
}

// canPressAction enforces the quantifier of C04: at most one complete up/down pair held and no
// third action pressed while a pair is held.
func (g *scriptGen) canPressAction(a string) bool {
	pairHeld := false
	for x := range g.actDown {
		if p := partnerOf(x); p != "" && g.actDown[p] {
			pairHeld = true
		}
	}
	// an unrelated action may already be held when a pair is completed; only a third action pressed
	// while a complete pair is held is outside the quantifier
	return !pairHeld
}

func (g *scriptGen) pressAction(ak model.ActionKey) bool {
	if g.down[ak.Code] || !g.canPressAction(ak.Action) {
		return false
	}
	// the device keeps octave and semitone in 8 bits; the statements do not say what happens beyond
	switch ak.Action {
	case "octave_up", "octave_down":
		if g.nOct >= 100 {
			return false
		}
		g.nOct++
	case "semitone_up", "semitone_down":
		if g.nSemi >= 110 {
			return false
		}
		g.nSemi++
	}
	// two keys of one action held and the other half of the pair pressed: the statement does not say what releasing
	// one of the two then means
	if p := partnerOf(ak.Action); p != "" && (g.actCnt[p] > 1 || (g.actCnt[p] > 0 && g.actCnt[ak.Action] > 0)) {
		return false
	}
	g.key(ak.Code, 1)
	g.actDown[ak.Action] = true
	g.actCnt[ak.Action]++
	return true
}

func (g *scriptGen) release(code uint16) {
	if a := g.actionOf(code); a != "" {
		if g.actCnt[a] > 0 {
			g.actCnt[a]--
		}
		if g.actCnt[a] == 0 {
			delete(g.actDown, a)
		}
	}
	g.key(code, 0)
}

func (g *scriptGen) releaseAll() {
	for len(g.order) > 0 {
		g.release(g.order[g.r.Intn(len(g.order))])
	}
}

// exitWouldFire reports whether pressing code would leave all exit-sequence keys down.
func (g *scriptGen) exitWouldFire(code uint16) bool {
	if len(g.d.Exit) == 0 {
		return false
	}
	for _, k := range g.d.Exit {
		if k.Code != code && !g.down[k.Code] {
			return false
		}
	}
	return true
}

// steps draws n steps: note presses/releases mixed with action taps/holds by weight.
func (g *scriptGen) steps(n int, wNote, wAct, wRel int, avoidExit bool) {
	for i := 0; i < n; i++ {
		if len(g.order) > 0 && g.r.Chance(0.04) {
			// kernel auto-repeat of a held key
			c := g.order[g.r.Intn(len(g.order))]
			g.out = append(g.out, model.Event{Kind: "key", Handler: g.handler[c], Code: c, Value: 2})
		}
		switch g.r.Pick(wNote, wAct, wRel) {
		case 0:
			if len(g.noteK) == 0 {
				continue
			}
			k := g.noteK[g.r.Intn(len(g.noteK))]
			if g.down[k.Code] {
				g.release(k.Code)
			} else if !(avoidExit && g.exitWouldFire(k.Code)) {
				g.key(k.Code, 1)
			}
		case 1:
			if len(g.d.Actions) == 0 {
				continue
			}
			ak := g.d.Actions[g.r.Intn(len(g.d.Actions))]
			if g.down[ak.Code] {
				g.release(ak.Code)
			} else if !(avoidExit && g.exitWouldFire(ak.Code)) {
				if g.pressAction(ak) && g.r.Chance(0.6) {
					g.release(ak.Code) // a tap
				}
			}
		case 2:
			if len(g.order) > 0 {
				g.release(g.order[g.r.Intn(len(g.order))])
			}
		}
	}
}

func evdevCode(c uint16) evdev.EvCode { return evdev.EvCode(c) }

// quantifierOK reports whether a script stays inside what the statements about actions quantify over: no action
// pressed while a complete up/down pair of action keys is held, and - where hats trigger actions too - no key and
// hat holding the same action or the two halves of one pair, and one deflected action hat at a time. The generators
// obey this by construction; the minimiser uses it to reject shrunk scripts that fail for another reason.
func quantifierOK(d *model.Desc, script []model.Event) bool {
	actOf := map[uint16]string{}
	for _, a := range d.Actions {
		actOf[a.Code] = a.Action
	}
	hats := map[uint16]model.AxisDesc{}
	for _, m := range d.Mappings {
		for _, sa := range m.Analog {
			for _, a := range sa.Axes {
				if a.Type == "action" {
					if _, ok := hats[a.Code]; !ok {
						hats[a.Code] = a
					}
				}
			}
		}
	}
	keyAct := map[string]bool{}
	pos := map[uint16]int32{}
	hatAction := func(a model.AxisDesc, v int32) string {
		if a.Flip {
			v = -v
		}
		if v > 0 && a.Action != nil {
			return *a.Action
		}
		if v < 0 && a.ActionNeg != nil {
			return *a.ActionNeg
		}
		return ""
	}
	pairHeld := func() bool {
		for x := range keyAct {
			if p := partnerOf(x); p != "" && keyAct[p] {
				return true
			}
		}
		return false
	}
	for _, e := range script {
		switch e.Kind {
		case "key":
			a, ok := actOf[e.Code]
			if !ok {
				continue
			}
			switch e.Value {
			case 1:
				if pairHeld() {
					return false
				}
				for c, h := range hats {
					if x := hatAction(h, pos[c]); x != "" && (x == a || x == partnerOf(a)) {
						return false
					}
				}
				keyAct[a] = true
			case 0:
				delete(keyAct, a)
			}
		case "abs":
			h, ok := hats[e.Code]
			if !ok {
				continue
			}
			x := hatAction(h, e.Value)
			if x != "" && x != hatAction(h, pos[e.Code]) {
				if pairHeld() || keyAct[x] || keyAct[partnerOf(x)] {
					return false
				}
				for c, o := range hats {
					if c != e.Code && hatAction(o, pos[c]) != "" {
						return false
					}
				}
			}
			pos[e.Code] = e.Value
		}
	}
	return true
}
