package worlds

import (
	"errors"
	"context"
	"encoding/json"
	"fmt"
	"os"
	"strings"
	"sync"
	"testing"
	"time"

	"github.com/fsnotify/fsnotify"
	"github.com/gethiox/HIDI/internal/pkg/logger"
	"github.com/gethiox/HIDI/internal/pkg/midi/device/config"
	"github.com/gethiox/HIDI/verifsim/model"
	"github.com/gethiox/HIDI/verifsim/simfs"
	"github.com/gethiox/HIDI/verifsim/simrt"
)

func init() {
	register("W4C19", runW4C19)
	shrinkers["W4C19"] = shrinkW4C
}

func shrinkW4C(raw json.RawMessage) []json.RawMessage {
	var o w4cOps
	if json.Unmarshal(raw, &o) != nil {
		return nil
	}
	var out []json.RawMessage
	clone := func() w4cOps {
		c := o
		c.Ops = append([]w4cOp(nil), o.Ops...)
		return c
	}
	for i := range o.Ops {
		if len(o.Ops) > 1 {
			c := clone()
			c.Ops = append(c.Ops[:i], c.Ops[i+1:]...)
			out = append(out, mustJSON(c))
		}
	}
	for i := range o.Ops {
		if o.Ops[i].Chunks > 1 {
			c := clone()
			c.Ops[i].Chunks = 1
			out = append(out, mustJSON(c))
		}
		if o.Ops[i].GapUs > 0 {
			c := clone()
			c.Ops[i].GapUs = 0
			out = append(out, mustJSON(c))
		}
	}
	if o.Reload {
		c := clone()
		c.Reload = false
		out = append(out, mustJSON(c))
	}
	if o.ConsumerUs > 0 {
		c := clone()
		c.ConsumerUs = 0
		out = append(out, mustJSON(c))
	}
	if o.ConsumerStops {
		c := clone()
		c.ConsumerStops = false
		out = append(out, mustJSON(c))
	}
	if o.CancelAtOp > 0 {
		c := clone()
		c.CancelAtOp = 0
		out = append(out, mustJSON(c))
	}
	if o.EarlyWrites {
		c := clone()
		c.EarlyWrites = false
		out = append(out, mustJSON(c))
	}
	return out
}

// W4C19: the real DetectDeviceConfigChanges over the simulated fsnotify/inotify and the simulated file
// system; a user task edits files, a consumer task (standing in for Manager.Run) receives the
// notifications - promptly or late - and may reload the configurations with the real loader while the
// user is in the middle of a multi-write save; cancellation at a PRNG-chosen moment.

type w4cOp struct {
	Dir        int    `json:"dir"`
	Name       string `json:"name"`
	Kind       string `json:"kind"`   // write (in place, truncating) | append | create | rename | remove | nested
	Chunks     int    `json:"chunks"` // number of write() calls
	GapUs      int    `json:"gap_us"` // pause before the operation
	ChunkGapUs int    `json:"chunk_gap_us"`
}

type w4cOps struct {
	Ops        []w4cOp `json:"ops"`
	ConsumerUs int     `json:"consumer_us"` // the consumer takes this long per notification (0 = prompt)
	Reload     bool    `json:"reload"`      // the consumer reloads the configurations after each notification
	CancelMs   int     `json:"cancel_ms"`   // cancel at this time (-1: only after everything settled)
	// NoWatcher: the inotify instance cannot be created (EMFILE); nothing can be noticed then, only the end of the
	// stream at shutdown is judged
	NoWatcher bool `json:"no_watcher,omitempty"`
	// ConsumerStops: the consumer stops taking notifications the moment the application shuts down (as Manager.Run
	// does: it selects on the context as well); the watcher has to stop all the same
	ConsumerStops bool `json:"consumer_stops,omitempty"`
	// CancelAtOp: the application is shut down right after this user operation (index+1; 0 = not used), in the same
	// instant: the watcher is then somewhere in the middle of handling that operation's events
	CancelAtOp int `json:"cancel_at_op,omitempty"`
	// EarlyWrites: the user starts as soon as DetectDeviceConfigChanges has returned, without giving the watcher's
	// goroutines a chance to run first: whatever is modified after the return has to be noticed
	EarlyWrites bool `json:"early_writes,omitempty"`
}

func isToml(name string) bool { return strings.HasSuffix(strings.ToLower(name), ".toml") }

func genW4C(r *simrt.Rng) *w4cOps {
	o := &w4cOps{CancelMs: -1}
	if r.Chance(0.5) {
		o.ConsumerUs = []int{100, 5000, 50000, 400000, 1500000, 4000000}[r.Intn(6)]
	}
	o.Reload = r.Chance(0.5)
	if r.Chance(0.3) {
		o.CancelMs = r.Intn(300)
	}
	tomlNames := []string{"a.toml", "my device.toml", "B.TOML", "c.Toml", "0_default.toml"}
	otherNames := []string{"notes.txt", "a.toml.bak", "README", "atoml", "x.tomlx", "config.atoml", ".a.toml.swp", "mytoml", "toml"}
	n := r.Range(1, 14)
	onlyOther := r.Chance(0.2)
	for i := 0; i < n; i++ {
		op := w4cOp{Dir: r.Intn(4), Chunks: r.Range(1, 4), GapUs: []int{0, 0, 100, 3000, 30000, 200000}[r.Intn(6)], ChunkGapUs: []int{0, 50, 2000}[r.Intn(3)]}
		if onlyOther || r.Chance(0.35) {
			op.Name = otherNames[r.Intn(len(otherNames))]
		} else {
			op.Name = tomlNames[r.Intn(len(tomlNames))]
		}
		op.Kind = []string{"write", "write", "write", "append", "create", "rename", "remove", "nested"}[r.Intn(8)]
		if r.Chance(0.08) {
			op.Kind = "empty" // the file is emptied in place: truncation without a following write
		}
		o.Ops = append(o.Ops, op)
	}
	o.NoWatcher = r.Chance(0.04)
	if r.Chance(0.3) {
		o.ConsumerStops = true
		if o.CancelMs < 0 && r.Chance(0.7) {
			o.CancelMs = r.Intn(300)
		}
	}
	if o.CancelMs < 0 && r.Chance(0.35) {
		o.CancelAtOp = 1 + r.Intn(len(o.Ops))
		// more often than not at a save of a configuration file: that is when the watcher has something in its hands
		for try := 0; try < 4; try++ {
			if op := o.Ops[o.CancelAtOp-1]; isToml(op.Name) && (op.Kind == "write" || op.Kind == "append") {
				break
			}
			o.CancelAtOp = 1 + r.Intn(len(o.Ops))
		}
	}
	if !o.NoWatcher && r.Chance(0.25) {
		o.EarlyWrites = true
		// what comes first comes at once, and in half of these runs nothing else follows that could cover it
		o.Ops[0].GapUs = 0
		if r.Chance(0.5) {
			o.Ops = o.Ops[:1]
			o.CancelAtOp = 0
		}
	}
	return o
}

func runW4C19(t *testing.T, job *Job, seed uint64, rp *Replay) RunOut {
	ro := RunOut{Faults: map[string]int{}, Probes: map[string]int{}}
	r := simrt.NewRng(seed, "workload")
	ops := genW4C(r)
	if rp != nil && rp.Override && len(rp.Ops) > 0 {
		var o w4cOps
		if err := json.Unmarshal(rp.Ops, &o); err != nil {
			ro.Infra = "bad replay ops"
			return ro
		}
		ops = &o
	}
	// content the user saves: valid configurations and damaged ones
	var contents [][]byte
	for i := 0; i < 4; i++ {
		d := richDesc(r, i)
		text := d.TOML()
		if r.Chance(0.5) {
			text, _ = model.MutateTOML(r, text, r.Range(1, 4))
		}
		contents = append(contents, []byte(text))
	}
	scfg, pol := schedConfig(seed, simrt.NewRng(seed, "schedcfg"))
	ro.Policy = pol
	fsys := newTreeFS()
	fsys.NoGates = false
	// every name exists beforehand so that "write" is an in-place modification
	for di, d := range fourDirs {
		for _, n := range []string{"a.toml", "my device.toml", "B.TOML", "c.Toml", "0_default.toml", "notes.txt", "a.toml.bak", "README", "atoml", "x.tomlx", "config.atoml", ".a.toml.swp", "mytoml", "toml"} {
			fsys.Put(d+"/"+n, contents[(di+len(n))%len(contents)])
		}
		fsys.PutDir(d + "/nested")
		fsys.Put(d+"/nested/deep.toml", contents[0])
	}
	var mu sync.Mutex
	type note struct {
		step int
		at   time.Duration
	}
	var notes []note
	lastTomlWriteStart, tomlWriteCalls := -1, 0
	var lastTomlName string
	closedAt, cancelAt := time.Duration(-1), time.Duration(-1)
	reloadStart := time.Duration(-1)
	var vio *Vio
	var loaderPanic string
	res := simrt.Run(t, scfg, func() {
		logger.Messages = make(chan []byte, 1024)
		stop := make(chan struct{})
		go func() {
			for {
				select {
				case <-logger.Messages:
				case <-stop:
					return
				}
			}
		}()
		defer close(stop)
		simfs.Attach(fsys)
		defer simfs.Attach(nil)
		fsnotify.Subscribe = fsys.Subscribe
		fsnotify.Go = simrt.Go
		fsnotify.Yield = simrt.Yield
		fsnotify.Queued, fsnotify.Coalesced, fsnotify.Delivered = 0, 0, 0
		fsnotify.NewWatcherErr = nil
		if ops.NoWatcher {
			fsnotify.NewWatcherErr = errors.New("too many open files")
		}
		ctx, cancel := context.WithCancel(context.Background())
		// the watcher is started from a task of its own, so that everything it starts can be told apart
		var changes <-chan bool
		hostID := ""
		returned := make(chan struct{})
		simrt.Go("watcherhost", func() {
			hostID = simrt.SelfID()
			changes = config.DetectDeviceConfigChanges(ctx)
			simrt.Close(returned)
		})
		if ops.EarlyWrites {
			// only until the call has returned: what its goroutines still have to do is their business (a blocking
			// receive, not a polling loop: under a scheduling policy that prefers the running task a loop of yields
			// would never let the call run)
			simrt.Recv(returned)
		} else {
			// let the watcher register its four directories
			simrt.WaitIdle()
		}
		consumerDone := false
		shutDown := false
		simrt.Go("consumer", func() {
			for {
				var ok bool
				if ops.ConsumerStops {
					// a consumer that selects on the context too: it polls, and stops for good at shutdown
					for {
						mu.Lock()
						sd := shutDown
						mu.Unlock()
						if sd {
							return
						}
						_, got, closed := simrt.TryRecv(changes)
						if closed {
							ok = false
							break
						}
						if got {
							ok = true
							break
						}
						simrt.Sleep(500 * time.Microsecond)
					}
				} else {
					_, ok = simrt.Recv(changes)
				}
				if !ok {
					mu.Lock()
					closedAt = simrt.Now()
					consumerDone = true
					mu.Unlock()
					return
				}
				mu.Lock()
				notes = append(notes, note{simrt.Steps(), simrt.Now()})
				mu.Unlock()
				if ops.Reload {
					mu.Lock()
					reloadStart = simrt.Now()
					mu.Unlock()
					func() {
						defer func() {
							if p := recover(); p != nil {
								mu.Lock()
								loaderPanic = fmt.Sprint(p) + " " + trimStack(string(debugStack()))
								mu.Unlock()
							}
						}()
						var wg sync.WaitGroup
						config.LoadDeviceConfigs(context.Background(), &wg)
					}()
					mu.Lock()
					reloadStart = -1
					mu.Unlock()
				}
				if ops.ConsumerUs > 0 {
					simrt.Sleep(time.Duration(ops.ConsumerUs) * time.Microsecond)
				}
			}
		})
		userDone := false
		cancelledByUser := false
		simrt.Go("user", func() {
			fsys.MarkUserTask()
			cancelNow := func() {
				mu.Lock()
				already := cancelledByUser
				cancelAt = simrt.Now()
				shutDown = true
				cancelledByUser = true
				mu.Unlock()
				if !already {
					cancel()
				}
			}
			for i, op := range ops.Ops {
				if op.GapUs > 0 {
					simrt.Sleep(time.Duration(op.GapUs) * time.Microsecond)
				}
				p := fourDirs[op.Dir] + "/" + op.Name
				data := contents[i%len(contents)]
				markWrite := func() {
					if isToml(op.Name) && op.Kind != "nested" {
						mu.Lock()
						lastTomlWriteStart = simrt.Steps()
						lastTomlName = p
						tomlWriteCalls++
						mu.Unlock()
					}
				}
				writeChunks := func(f *simfs.File) {
					n := op.Chunks
					if n < 1 {
						n = 1
					}
					sz := (len(data) + n - 1) / n
					for c := 0; c < n; c++ {
						lo, hi := c*sz, (c+1)*sz
						if lo > len(data) {
							lo = len(data)
						}
						if hi > len(data) {
							hi = len(data)
						}
						if hi > lo {
							markWrite()
							f.Write(data[lo:hi])
							if ops.CancelAtOp == i+1 && c == 0 {
								cancelNow() // in the middle of the save, right behind its first write()
							}
						}
						if op.ChunkGapUs > 0 {
							simrt.Sleep(time.Duration(op.ChunkGapUs) * time.Microsecond)
						}
					}
				}
				switch op.Kind {
				case "write":
					markWrite() // the truncation is a modification as well
					f, err := simfs.OpenFile(p, os.O_WRONLY|os.O_TRUNC, 0o644)
					if err == nil {
						writeChunks(f)
						f.Close()
					}
				case "empty":
					markWrite()
					if f, err := simfs.OpenFile(p, os.O_WRONLY|os.O_TRUNC, 0o644); err == nil {
						f.Close()
					}
				case "append":
					f, err := simfs.OpenFile(p, os.O_WRONLY|os.O_APPEND, 0o644)
					if err == nil {
						writeChunks(f)
						f.Close()
					}
				case "create":
					np := fourDirs[op.Dir] + "/new-" + op.Name
					f, err := simfs.OpenFile(np, os.O_WRONLY|os.O_CREATE|os.O_TRUNC, 0o644)
					if err == nil {
						op2 := op
						op2.Name = "new-" + op.Name
						old := op
						op = op2
						p = np
						writeChunks(f)
						op = old
						f.Close()
					}
				case "rename":
					tmp := p + ".tmp~"
					simfs.WriteFile(tmp, data, 0o644)
					simfs.Rename(tmp, p)
				case "remove":
					simfs.Remove(p)
					simfs.WriteFile(p+".restore", data, 0o644)
					simfs.Rename(p+".restore", p)
				case "nested":
					simfs.WriteFile(fourDirs[op.Dir]+"/nested/deep.toml", data, 0o644)
				}
				if ops.CancelAtOp == i+1 {
					cancelNow()
				}
			}
			mu.Lock()
			userDone = true
			mu.Unlock()
		})
		cancelled := false
		if ops.CancelMs >= 0 {
			simrt.Sleep(time.Duration(ops.CancelMs) * time.Millisecond)
			mu.Lock()
			cancelAt = simrt.Now()
			mu.Unlock()
			simrt.Yield("h.cancel")
			mu.Lock()
			shutDown = true
			mu.Unlock()
			cancel()
			cancelled = true
		}
		// settle: until the user is done and nothing arrives any more
		deadline := simrt.Now() + 30*time.Second + time.Duration(len(ops.Ops)*2*ops.ConsumerUs)*time.Microsecond
		last, stable := -1, 0
		// a consumer that is busy for a while per notification has not seen the pending one yet
		need := 5 + ops.ConsumerUs/100000
		for simrt.Now() < deadline && stable < need {
			simrt.Sleep(100 * time.Millisecond)
			mu.Lock()
			snap := len(notes)*3 + tomlWriteCalls
			ud := userDone
			if userDone {
				snap += 1000000
			}
			mu.Unlock()
			if snap == last && ud {
				stable++
			} else {
				stable = 0 // never judge while the user is still editing (pauses between operations are up to 200 ms)
			}
			last = snap
		}
		// a reload still in progress gets 15 more simulated seconds
		for k := 0; k < 150; k++ {
			mu.Lock()
			rs0 := reloadStart
			mu.Unlock()
			if rs0 < 0 {
				break
			}
			simrt.Sleep(100 * time.Millisecond)
		}
		mu.Lock()
		rs := reloadStart
		mu.Unlock()
		if rs >= 0 && simrt.Now()-rs > 10*time.Second {
			// a reload that has been running for more than 10 simulated seconds: the loader hangs on what the
			// user left on disk at that moment
			bb, _ := json.Marshal(ops)
			HardFail(&Vio{Props: []string{"C09"}, Clause: "device_config_hang_during_save", Detail: fmt.Sprintf("LoadDeviceConfigs, started at t=%v while the user was saving, has not returned at t=%v", rs, simrt.Now())},
				&Replay{World: "W4C19", Prop: job.Prop, Seed: seed, Tier: job.Tier, Ops: bb, Override: true, Config: string(bb)})
		}
		simrt.WaitIdle()
		mk := func(clause, detail string) {
			if vio == nil {
				vio = &Vio{Props: []string{"C19"}, Clause: clause, Detail: detail}
				bb, _ := json.Marshal(ops)
				notePending(vio, &Replay{World: "W4C19", Prop: job.Prop, Seed: seed, Ops: bb, Override: true})
			}
		}
		// the number of write()/truncate operations on *.toml files directly inside the four directories,
		// from the file system's own operation log
		mu.Lock()
		tomlWriteCalls = 0
		for _, op := range fsys.Ops {
			if op.Actor != "user" || (op.Kind != "write" && op.Kind != "trunc") || op.Err != "" {
				continue
			}
			i := strings.LastIndex(op.Path, "/")
			dir, base := strings.TrimPrefix(op.Path[:i], "/"), op.Path[i+1:]
			for _, d := range fourDirs {
				if d == dir && isToml(base) {
					tomlWriteCalls++
				}
			}
		}
		mu.Unlock()
		mu.Lock()
		nn := len(notes)
		lastNote := -1
		if nn > 0 {
			lastNote = notes[nn-1].step
		}
		mu.Unlock()
		mu.Lock()
		cancelled = cancelled || cancelledByUser
		mu.Unlock()
		if !cancelled {
			if tomlWriteCalls == 0 && nn > 0 {
				mk("notification_without_toml_write", fmt.Sprintf("%d notifications although no *.toml file in the four directories was modified", nn))
			}
			if tomlWriteCalls > 0 && lastNote < lastTomlWriteStart && !ops.NoWatcher {
				mk("modification_not_noticed", fmt.Sprintf("the last in-place modification of %s started at step %d, the last of %d notifications was received at step %d (consumer takes %dus per notification)", lastTomlName, lastTomlWriteStart, nn, lastNote, ops.ConsumerUs))
			}
			if nn > tomlWriteCalls {
				mk("too_many_notifications", fmt.Sprintf("%d notifications for %d write/truncate operations on *.toml files", nn, tomlWriteCalls))
			}
			// shut down: the stream must end
			mu.Lock()
			cancelAt = simrt.Now()
			mu.Unlock()
			simrt.Yield("h.cancel")
			mu.Lock()
			shutDown = true
			mu.Unlock()
			cancel()
		} else if tomlWriteCalls == 0 && nn > 0 {
			mk("notification_without_toml_write", fmt.Sprintf("%d notifications although no *.toml file in the four directories was modified", nn))
		}
		end := simrt.Now() + 5*time.Second
		if ops.ConsumerStops {
			// nobody takes notifications any more: the watcher and everything it started must end all the same,
			// and the stream must be closed
			for simrt.Now() < end && len(simrt.AliveUnder(hostID)) > 0 {
				simrt.Sleep(20 * time.Millisecond)
			}
			if alive := simrt.AliveUnder(hostID); len(alive) > 0 {
				mk("watcher_does_not_stop", fmt.Sprintf("5 simulated seconds after the context was cancelled (the consumer stopped taking notifications at that moment, as Manager.Run does) the watcher is still there: %v", alive))
				simrt.Stop()
				return
			}
			closed := false
			for k := 0; k < 64 && !closed; k++ {
				_, _, closed = simrt.TryRecv(changes)
			}
			if !closed {
				mk("stream_not_closed_after_cancel", "the watcher's goroutines have ended but the notification channel is not closed")
			}
			mu.Lock()
			consumerDone = true
			mu.Unlock()
		}
		for simrt.Now() < end {
			mu.Lock()
			d := consumerDone
			mu.Unlock()
			if d {
				break
			}
			simrt.Sleep(20 * time.Millisecond)
		}
		mu.Lock()
		d := consumerDone
		mu.Unlock()
		if !d {
			mk("stream_not_closed_after_cancel", fmt.Sprintf("the notification channel was not closed within 5 simulated seconds after the context was cancelled (consumer still reading)"))
			simrt.Stop()
		}
		ro.Probes["inotify_events_queued"] += fsnotify.Queued
		ro.Probes["inotify_events_coalesced"] += fsnotify.Coalesced
		ro.Probes["notifications"] += nn
		ro.Probes["toml_write_calls"] += tomlWriteCalls
	})
	ro.Steps, ro.SimTime, ro.Hash, ro.Choices = res.Steps, res.SimTime, res.SchedHash, res.Choices
	ro.Nontriv = res.Choices > 0
	for _, p := range res.Panics {
		if strings.Contains(p.Value, "SIMGEN-UNSUPPORTED") {
			ro.Infra = p.Value
		} else if vio == nil {
			vio = &Vio{Props: []string{"C19"}, Clause: "panic", Detail: "panic in " + p.Task + ": " + p.Value + " " + trimStack(p.Stack)}
		}
	}
	if loaderPanic != "" {
		vio = &Vio{Props: []string{"C09"}, Clause: "device_config_panic_during_save", Detail: "LoadDeviceConfigs panicked while the user was saving: " + loaderPanic}
	}
	if ops.ConsumerUs > 0 {
		ro.Faults["late_consumer"]++
	}
	if ops.CancelMs >= 0 {
		ro.Faults["cancel_mid_history"]++
	}
	if ops.Reload {
		ro.Faults["reload_during_save"]++
	}
	if ops.EarlyWrites {
		ro.Faults["write_right_after_the_watcher_call_returned"]++
	}
	if ops.ConsumerStops {
		ro.Faults["consumer_stops_at_shutdown"]++
	}
	if ops.NoWatcher {
		ro.Faults["inotify_unavailable"]++
	}
	for _, op := range ops.Ops {
		if op.Chunks > 1 {
			ro.Faults["multi_write_save"]++
		}
	}
	_, _ = closedAt, cancelAt
	b, _ := json.Marshal(ops)
	if vio != nil {
		ro.Vio = vio
		ro.Replay = &Replay{World: "W4C19", Prop: job.Prop, Seed: seed, Tier: job.Tier, Ops: b, Override: true, Trace: res.Trace, Config: string(b)}
	}
	ro.Sample = fmt.Sprintf("seed=%d policy=%s ops=%s", seed, pol, shorten(string(b), 700))
	return ro
}
