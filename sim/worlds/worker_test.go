package worlds

import "testing"

// TestWorker is the entry point of a simulation worker process (see common.go).
func TestWorker(t *testing.T) { WorkerMain(t) }
