// Package simfs is the file-system seam of the HIDI simulation: an in-memory tree behind the
// os / filepath functions HIDI uses (the instrumenter redirects the calls), with an operation
// log, scheduling gates, injected errors, crashes between operations, short / torn writes, a
// power-loss post-processor and a change feed for the simulated fsnotify watcher.
//
// When no file system is attached every function passes through to the real os package.
package simfs

import (
	"errors"
	"fmt"
	"io"
	"io/fs"
	"os"
	"path"
	"path/filepath"
	"sort"
	"strings"
	"sync"
	"syscall"
	"time"

	"github.com/gethiox/HIDI/verifsim/simrt"
)

type node struct {
	name     string
	link     string // symbolic link target (absolute path in this tree)
	dir      bool
	children map[string]*node
	data     []byte
	mode     fs.FileMode
	// state at "boot" (Attach or MarkBoot), for the power-loss model
	bootExists bool
	bootData   []byte
	dirty      bool
}

// Op is one logged file-system operation.
type Op struct {
	Seq      int
	Kind     string // open, create, trunc, mkdir, write, read, stat, readdir, remove, rename, close, walk
	Path     string
	N        int
	Mutating bool
	Err      string
	Actor    string // "sut" or "user"
}

// Fault is one planned fault.
type Fault struct {
	// AtMut > 0: fires at the AtMut-th mutating operation (1-based). AtOp > 0: at the AtOp-th operation of any kind.
	AtMut int
	AtOp  int
	// Path, when set, restricts the fault to operations on that path (or below it) and makes it persistent
	// (e.g. an unreadable file); Kinds restricts it to operation kinds.
	Path  string
	Kinds []string
	// What: "crash" (panic Crash before the operation), "eio", "enospc", "eacces", "enoent",
	// "short" (write only ShortN bytes then report ENOSPC), "torn" (write ShortN bytes then crash)
	What   string
	ShortN int
	Fired  int
}

// Crash is the panic value that unwinds the program under test at an injected crash point.
type Crash struct{ At Op }

func (c Crash) Error() string { return fmt.Sprintf("simfs crash before %s %s", c.At.Kind, c.At.Path) }

type FS struct {
	mu       sync.Mutex
	root     *node
	Ops      []Op
	nMut     int
	Faults   []*Fault
	actor    string
	subs     []*sub
	NoGates  bool
	Counters map[string]int
	users    map[string]bool // ids of simulation tasks that act as the user
	// Delay, when set, is the simulated time an operation of the program under test takes (a slow disk)
	Delay func(kind, path string) time.Duration
}

type sub struct {
	dir string
	raw string // path as given by the subscriber
	fn  func(name string, op string)
}

var (
	curMu sync.Mutex
	cur   *FS
)

func New() *FS {
	return &FS{root: &node{name: "/", dir: true, children: map[string]*node{}, mode: fs.ModeDir | 0o777}, actor: "sut", Counters: map[string]int{}}
}

// Attach makes f the file system seen by the instrumented program. Attach(nil) detaches.
func Attach(f *FS) {
	curMu.Lock()
	cur = f
	curMu.Unlock()
}

func current() *FS {
	curMu.Lock()
	f := cur
	curMu.Unlock()
	return f
}

// MarkUserTask makes the calling simulation task a "user": its operations are logged as such and are
// exempt from the fault plan (faults are aimed at the program under test).
func (f *FS) MarkUserTask() {
	id := simrt.SelfID()
	f.mu.Lock()
	if f.users == nil {
		f.users = map[string]bool{}
	}
	f.users[id] = true
	f.mu.Unlock()
}

// AsUser runs fn with operations attributed to the simulated user (the harness) instead of HIDI.
func (f *FS) AsUser(fn func()) {
	f.mu.Lock()
	old := f.actor
	f.actor = "user"
	f.mu.Unlock()
	defer func() { f.mu.Lock(); f.actor = old; f.mu.Unlock() }()
	fn()
}

func norm(p string) string {
	if !strings.HasPrefix(p, "/") {
		p = "/" + p
	}
	return path.Clean(p)
}

// lookup resolves a path, following symbolic links (also in the last component).
func (f *FS) lookup(p string) *node { return f.resolve(p, true, 0) }

// lookupNoFollow does not follow a symbolic link in the last component (Lstat).
func (f *FS) lookupNoFollow(p string) *node { return f.resolve(p, false, 0) }

func (f *FS) resolve(p string, followLast bool, depth int) *node {
	p = norm(p)
	if p == "/" {
		return f.root
	}
	if depth > 8 {
		return nil
	}
	n := f.root
	parts := strings.Split(p[1:], "/")
	for i, part := range parts {
		if n == nil || !n.dir {
			return nil
		}
		n = n.children[part]
		if n != nil && n.link != "" && (followLast || i < len(parts)-1) {
			n = f.resolve(n.link, true, depth+1)
		}
	}
	return n
}

func (f *FS) parent(p string) (*node, string) {
	p = norm(p)
	d, b := path.Split(p)
	return f.lookup(d), b
}

func pathErr(op, p string, err error) error { return &fs.PathError{Op: op, Path: p, Err: err} }

// step logs an operation, runs the scheduling gate and applies planned faults.
// It returns an injected error (nil if none) and, for short writes, the number of bytes allowed (-1 = all).
func (f *FS) step(kind, p string, n int, mutating bool) (error, int) {
	if !f.NoGates {
		simrt.Yield("fs:" + kind)
	}
	actor := f.actor
	if len(f.users) > 0 {
		id := simrt.SelfID()
		f.mu.Lock()
		if f.users[id] {
			actor = "user"
		}
		f.mu.Unlock()
	}
	if f.Delay != nil && actor == "sut" {
		if d := f.Delay(kind, norm(p)); d > 0 {
			simrt.Sleep(d)
		}
	}
	f.mu.Lock()
	op := Op{Seq: len(f.Ops) + 1, Kind: kind, Path: norm(p), N: n, Mutating: mutating, Actor: actor}
	if mutating && actor == "sut" {
		f.nMut++
	}
	var hit *Fault
	if actor == "sut" {
		for _, ft := range f.Faults {
			if ft.AtMut > 0 && !(mutating && f.nMut == ft.AtMut) {
				continue
			}
			if ft.AtOp > 0 && op.Seq != ft.AtOp {
				continue
			}
			if ft.AtMut == 0 && ft.AtOp == 0 && ft.Path == "" {
				continue
			}
			if ft.Path != "" {
				fp := norm(ft.Path)
				if op.Path != fp && !strings.HasPrefix(op.Path, fp+"/") {
					continue
				}
			}
			if len(ft.Kinds) > 0 {
				ok := false
				for _, k := range ft.Kinds {
					if k == kind {
						ok = true
					}
				}
				if !ok {
					continue
				}
			}
			hit = ft
			break
		}
	}
	var err error
	allow := -1
	if hit != nil {
		hit.Fired++
		f.Counters["fault:"+hit.What]++
		switch hit.What {
		case "crash":
			op.Err = "CRASH"
			f.Ops = append(f.Ops, op)
			f.mu.Unlock()
			panic(Crash{At: op})
		case "eio":
			err = syscall.EIO
		case "enospc":
			err = syscall.ENOSPC
		case "eacces":
			err = syscall.EACCES
		case "enoent":
			err = syscall.ENOENT
		case "short", "torn":
			if kind == "write" {
				allow = hit.ShortN
				if allow > n {
					allow = n
				}
				if hit.What == "short" {
					err = syscall.ENOSPC
				} else {
					err = errTorn
				}
			}
		}
		if err != nil && err != errTorn {
			op.Err = err.Error()
		}
	}
	f.Ops = append(f.Ops, op)
	f.mu.Unlock()
	return err, allow
}

var errTorn = errors.New("torn")

func (f *FS) notify(p string, op string) {
	p = norm(p)
	d := path.Dir(p)
	f.mu.Lock()
	subs := append([]*sub(nil), f.subs...)
	f.mu.Unlock()
	for _, s := range subs {
		if s.dir == d {
			s.fn(path.Join(s.raw, path.Base(p)), op)
		}
	}
}

// Subscribe registers a change feed for one directory (non-recursive, like inotify).
// It fails when the directory does not exist.
func (f *FS) Subscribe(dir string, fn func(name string, op string)) error {
	f.mu.Lock()
	defer f.mu.Unlock()
	n := f.lookup(dir)
	if n == nil || !n.dir {
		return pathErr("inotify_add_watch", dir, syscall.ENOENT)
	}
	f.subs = append(f.subs, &sub{dir: norm(dir), raw: dir, fn: fn})
	return nil
}

// Current returns the attached file system (nil when detached).
func Current() *FS { return current() }

// MutatingOps returns how many mutating operations the program under test has performed.
func (f *FS) MutatingOps() int { f.mu.Lock(); defer f.mu.Unlock(); return f.nMut }

// ResetLog clears the operation log and the mutating-operation counter (between runs on one tree).
func (f *FS) ResetLog() {
	f.mu.Lock()
	f.Ops = nil
	f.nMut = 0
	f.mu.Unlock()
}

// ---------------------------------------------------------------------------------------
// file handles

type File struct {
	*os.File // pass-through mode only
	fsys     *FS
	n        *node
	name     string
	pos      int
	flag     int
	closed   bool
	dirRead  bool
}

func (f *File) sim() bool { return f.fsys != nil }

func (f *File) Name() string {
	if !f.sim() {
		return f.File.Name()
	}
	return f.name
}

func (f *File) Close() error {
	if f == nil {
		return os.ErrInvalid // like *os.File
	}
	if !f.sim() {
		return f.File.Close()
	}
	if f.closed {
		return pathErr("close", f.name, fs.ErrClosed)
	}
	f.closed = true
	return nil
}

func (f *File) Read(b []byte) (int, error) {
	if f == nil {
		return 0, os.ErrInvalid // like *os.File
	}
	if !f.sim() {
		return f.File.Read(b)
	}
	if f.closed {
		return 0, pathErr("read", f.name, fs.ErrClosed)
	}
	if f.n.dir {
		return 0, pathErr("read", f.name, syscall.EISDIR)
	}
	if f.flag&(os.O_WRONLY) != 0 {
		return 0, pathErr("read", f.name, syscall.EBADF)
	}
	if err, _ := f.fsys.step("read", f.name, len(b), false); err != nil {
		return 0, pathErr("read", f.name, err)
	}
	if len(b) == 0 {
		return 0, nil // like *os.File: a zero-length read never reports EOF
	}
	f.fsys.mu.Lock()
	defer f.fsys.mu.Unlock()
	if f.pos >= len(f.n.data) {
		return 0, io.EOF
	}
	n := copy(b, f.n.data[f.pos:])
	f.pos += n
	return n, nil
}

func (f *File) Write(b []byte) (int, error) {
	if f == nil {
		return 0, os.ErrInvalid // like *os.File
	}
	if !f.sim() {
		return f.File.Write(b)
	}
	if f.closed {
		return 0, pathErr("write", f.name, fs.ErrClosed)
	}
	if f.flag&(os.O_WRONLY|os.O_RDWR) == 0 {
		return 0, pathErr("write", f.name, syscall.EBADF)
	}
	err, allow := f.fsys.step("write", f.name, len(b), true)
	if err != nil && allow < 0 {
		return 0, pathErr("write", f.name, err)
	}
	w := b
	if allow >= 0 {
		w = b[:allow]
	}
	f.fsys.mu.Lock()
	if f.flag&os.O_APPEND != 0 {
		f.pos = len(f.n.data)
	}
	if f.pos > len(f.n.data) {
		f.n.data = append(f.n.data, make([]byte, f.pos-len(f.n.data))...)
	}
	nd := append([]byte(nil), f.n.data[:f.pos]...)
	nd = append(nd, w...)
	if f.pos+len(w) < len(f.n.data) {
		nd = append(nd, f.n.data[f.pos+len(w):]...)
	}
	f.n.data = nd
	f.n.dirty = true
	f.pos += len(w)
	f.fsys.mu.Unlock()
	if len(w) > 0 {
		f.fsys.notify(f.name, "write")
	}
	if err == errTorn {
		panic(Crash{At: Op{Kind: "write", Path: f.name, N: len(w)}})
	}
	if err != nil {
		return len(w), pathErr("write", f.name, err)
	}
	return len(w), nil
}

func (f *File) WriteString(s string) (int, error) { return f.Write([]byte(s)) }

func (f *File) Seek(off int64, whence int) (int64, error) {
	if f == nil {
		return 0, os.ErrInvalid // like *os.File
	}
	if !f.sim() {
		return f.File.Seek(off, whence)
	}
	switch whence {
	case io.SeekStart:
		f.pos = int(off)
	case io.SeekCurrent:
		f.pos += int(off)
	case io.SeekEnd:
		f.pos = len(f.n.data) + int(off)
	}
	if f.pos < 0 {
		f.pos = 0
	}
	return int64(f.pos), nil
}

func (f *File) Sync() error {
	if f == nil {
		return os.ErrInvalid // like *os.File
	}
	if !f.sim() {
		return f.File.Sync()
	}
	f.fsys.mu.Lock()
	f.n.bootExists, f.n.bootData, f.n.dirty = true, append([]byte(nil), f.n.data...), false
	f.fsys.mu.Unlock()
	return nil
}

func (f *File) Truncate(size int64) error {
	if f == nil {
		return os.ErrInvalid // like *os.File
	}
	if !f.sim() {
		return f.File.Truncate(size)
	}
	if err, _ := f.fsys.step("trunc", f.name, int(size), true); err != nil {
		return pathErr("truncate", f.name, err)
	}
	f.fsys.mu.Lock()
	if int(size) <= len(f.n.data) {
		f.n.data = f.n.data[:size]
	} else {
		f.n.data = append(f.n.data, make([]byte, int(size)-len(f.n.data))...)
	}
	f.n.dirty = true
	f.fsys.mu.Unlock()
	f.fsys.notify(f.name, "write")
	return nil
}

type info struct {
	name string
	size int64
	mode fs.FileMode
}

func (i info) Name() string               { return i.name }
func (i info) Size() int64                { return i.size }
func (i info) Mode() fs.FileMode          { return i.mode }
func (i info) ModTime() time.Time         { return time.Time{} }
func (i info) IsDir() bool                { return i.mode.IsDir() }
func (i info) Sys() interface{}           { return nil }
func (i info) Type() fs.FileMode          { return i.mode.Type() }
func (i info) Info() (fs.FileInfo, error) { return i, nil }

func nodeInfo(n *node) info {
	m := n.mode
	if n.dir {
		m |= fs.ModeDir
	}
	return info{name: n.name, size: int64(len(n.data)), mode: m}
}

func (f *File) Stat() (fs.FileInfo, error) {
	if f == nil {
		return nil, os.ErrInvalid // like *os.File
	}
	if !f.sim() {
		return f.File.Stat()
	}
	return nodeInfo(f.n), nil
}

func (f *File) ReadDir(n int) ([]fs.DirEntry, error) {
	if f == nil {
		return nil, os.ErrInvalid // like *os.File
	}
	if !f.sim() {
		return f.File.ReadDir(n)
	}
	if !f.n.dir {
		return nil, pathErr("readdirent", f.name, syscall.ENOTDIR)
	}
	if err, _ := f.fsys.step("readdir", f.name, 0, false); err != nil {
		return nil, pathErr("readdirent", f.name, err)
	}
	if f.dirRead {
		if n > 0 {
			return nil, io.EOF
		}
		return nil, nil
	}
	f.dirRead = true
	return f.fsys.list(f.n), nil
}

func (f *File) Readdirnames(n int) ([]string, error) {
	es, err := f.ReadDir(n)
	var out []string
	for _, e := range es {
		out = append(out, e.Name())
	}
	return out, err
}

func (f *File) Readdir(n int) ([]fs.FileInfo, error) {
	es, err := f.ReadDir(n)
	var out []fs.FileInfo
	for _, e := range es {
		i, _ := e.Info()
		out = append(out, i)
	}
	return out, err
}

func (f *FS) list(n *node) []fs.DirEntry {
	f.mu.Lock()
	defer f.mu.Unlock()
	names := make([]string, 0, len(n.children))
	for k := range n.children {
		names = append(names, k)
	}
	sort.Strings(names)
	out := make([]fs.DirEntry, 0, len(names))
	for _, k := range names {
		inf := nodeInfo(n.children[k])
		if n.children[k].link != "" {
			inf.mode = fs.ModeSymlink | 0o777
		}
		out = append(out, inf)
	}
	return out
}

// ---------------------------------------------------------------------------------------
// os-level functions

func Open(name string) (*File, error) { return OpenFile(name, os.O_RDONLY, 0) }

func Create(name string) (*File, error) {
	return OpenFile(name, os.O_RDWR|os.O_CREATE|os.O_TRUNC, 0o666)
}

func OpenFile(name string, flag int, perm fs.FileMode) (*File, error) {
	f := current()
	if f == nil {
		rf, err := os.OpenFile(name, flag, perm)
		if err != nil {
			return nil, err
		}
		return &File{File: rf}, nil
	}
	f.mu.Lock()
	n := f.lookup(name)
	f.mu.Unlock()
	creates := n == nil && flag&os.O_CREATE != 0
	truncs := n != nil && !n.dir && flag&os.O_TRUNC != 0 && flag&(os.O_WRONLY|os.O_RDWR) != 0
	kind := "open"
	if creates {
		kind = "create"
	} else if truncs {
		kind = "trunc"
	}
	if err, _ := f.step(kind, name, 0, creates || truncs); err != nil {
		return nil, pathErr("open", name, err)
	}
	f.mu.Lock()
	n = f.lookup(name)
	if n == nil {
		if flag&os.O_CREATE == 0 {
			f.mu.Unlock()
			return nil, pathErr("open", name, syscall.ENOENT)
		}
		p, base := f.parent(name)
		if p == nil || !p.dir {
			f.mu.Unlock()
			return nil, pathErr("open", name, syscall.ENOENT)
		}
		n = &node{name: base, mode: perm & 0o777, dirty: true}
		p.children[base] = n
		f.mu.Unlock()
		f.notify(name, "create")
		f.mu.Lock()
	} else {
		if flag&os.O_EXCL != 0 && flag&os.O_CREATE != 0 {
			f.mu.Unlock()
			return nil, pathErr("open", name, syscall.EEXIST)
		}
		if n.dir && flag&(os.O_WRONLY|os.O_RDWR) != 0 {
			f.mu.Unlock()
			return nil, pathErr("open", name, syscall.EISDIR)
		}
		if truncs {
			n.data = nil
			n.dirty = true
			f.mu.Unlock()
			f.notify(name, "write")
			f.mu.Lock()
		}
	}
	f.mu.Unlock()
	return &File{fsys: f, n: n, name: name, flag: flag}, nil
}

func Mkdir(name string, perm fs.FileMode) error {
	f := current()
	if f == nil {
		return os.Mkdir(name, perm)
	}
	if err, _ := f.step("mkdir", name, 0, true); err != nil {
		return pathErr("mkdir", name, err)
	}
	f.mu.Lock()
	if f.lookup(name) != nil {
		f.mu.Unlock()
		return pathErr("mkdir", name, syscall.EEXIST)
	}
	p, base := f.parent(name)
	if p == nil || !p.dir {
		f.mu.Unlock()
		return pathErr("mkdir", name, syscall.ENOENT)
	}
	p.children[base] = &node{name: base, dir: true, children: map[string]*node{}, mode: perm & 0o777, dirty: true}
	f.mu.Unlock()
	f.notify(name, "create")
	return nil
}

func MkdirAll(name string, perm fs.FileMode) error {
	f := current()
	if f == nil {
		return os.MkdirAll(name, perm)
	}
	p := norm(name)
	if p == "/" {
		return nil
	}
	cur := ""
	for _, part := range strings.Split(p[1:], "/") {
		cur += "/" + part
		f.mu.Lock()
		n := f.lookup(cur)
		f.mu.Unlock()
		if n != nil {
			if !n.dir {
				return pathErr("mkdir", cur, syscall.ENOTDIR)
			}
			continue
		}
		if err := Mkdir(cur, perm); err != nil {
			return err
		}
	}
	return nil
}

func Stat(name string) (fs.FileInfo, error) {
	f := current()
	if f == nil {
		return os.Stat(name)
	}
	if err, _ := f.step("stat", name, 0, false); err != nil {
		return nil, pathErr("stat", name, err)
	}
	f.mu.Lock()
	defer f.mu.Unlock()
	n := f.lookup(name)
	if n == nil {
		return nil, pathErr("stat", name, syscall.ENOENT)
	}
	return nodeInfo(n), nil
}

func Lstat(name string) (fs.FileInfo, error) {
	f := current()
	if f == nil {
		return os.Lstat(name)
	}
	if err, _ := f.step("stat", name, 0, false); err != nil {
		return nil, pathErr("lstat", name, err)
	}
	f.mu.Lock()
	defer f.mu.Unlock()
	n := f.lookupNoFollow(name)
	if n == nil {
		return nil, pathErr("lstat", name, syscall.ENOENT)
	}
	inf := nodeInfo(n)
	if n.link != "" {
		inf.mode = fs.ModeSymlink | 0o777
		inf.name = path.Base(norm(name))
	}
	return inf, nil
}

// PutSymlink creates a symbolic link (harness side, not logged).
func (f *FS) PutSymlink(p, target string) {
	f.Put(p, nil)
	f.mu.Lock()
	if n := f.lookupNoFollow(p); n != nil {
		n.link = norm(target)
	}
	f.mu.Unlock()
}

func ReadFile(name string) ([]byte, error) {
	f := current()
	if f == nil {
		return os.ReadFile(name)
	}
	fd, err := Open(name)
	if err != nil {
		return nil, err
	}
	defer fd.Close()
	return io.ReadAll(fd)
}

func WriteFile(name string, data []byte, perm fs.FileMode) error {
	f := current()
	if f == nil {
		return os.WriteFile(name, data, perm)
	}
	fd, err := OpenFile(name, os.O_WRONLY|os.O_CREATE|os.O_TRUNC, perm)
	if err != nil {
		return err
	}
	_, err = fd.Write(data)
	fd.Close()
	return err
}

func ReadDir(name string) ([]fs.DirEntry, error) {
	f := current()
	if f == nil {
		return os.ReadDir(name)
	}
	if err, _ := f.step("readdir", name, 0, false); err != nil {
		return nil, pathErr("open", name, err)
	}
	f.mu.Lock()
	n := f.lookup(name)
	f.mu.Unlock()
	if n == nil {
		return nil, pathErr("open", name, syscall.ENOENT)
	}
	if !n.dir {
		return nil, pathErr("readdirent", name, syscall.ENOTDIR)
	}
	return f.list(n), nil
}

func Remove(name string) error {
	f := current()
	if f == nil {
		return os.Remove(name)
	}
	if err, _ := f.step("remove", name, 0, true); err != nil {
		return pathErr("remove", name, err)
	}
	f.mu.Lock()
	n := f.lookup(name)
	if n == nil {
		f.mu.Unlock()
		return pathErr("remove", name, syscall.ENOENT)
	}
	if n.dir && len(n.children) > 0 {
		f.mu.Unlock()
		return pathErr("remove", name, syscall.ENOTEMPTY)
	}
	p, base := f.parent(name)
	delete(p.children, base)
	f.mu.Unlock()
	f.notify(name, "remove")
	return nil
}

func RemoveAll(name string) error {
	f := current()
	if f == nil {
		return os.RemoveAll(name)
	}
	if err, _ := f.step("remove", name, 0, true); err != nil {
		return pathErr("remove", name, err)
	}
	f.mu.Lock()
	if f.lookup(name) != nil {
		p, base := f.parent(name)
		delete(p.children, base)
	}
	f.mu.Unlock()
	f.notify(name, "remove")
	return nil
}

func Rename(from, to string) error {
	f := current()
	if f == nil {
		return os.Rename(from, to)
	}
	if err, _ := f.step("rename", from, 0, true); err != nil {
		return &os.LinkError{Op: "rename", Old: from, New: to, Err: err}
	}
	f.mu.Lock()
	n := f.lookup(from)
	tp, tb := f.parent(to)
	if n == nil || tp == nil || !tp.dir {
		f.mu.Unlock()
		return &os.LinkError{Op: "rename", Old: from, New: to, Err: syscall.ENOENT}
	}
	fp, fb := f.parent(from)
	delete(fp.children, fb)
	n.name = tb
	n.dirty = true
	tp.children[tb] = n
	f.mu.Unlock()
	f.notify(from, "rename")
	f.notify(to, "create")
	return nil
}

func Truncate(name string, size int64) error {
	if current() == nil {
		return os.Truncate(name, size)
	}
	fd, err := OpenFile(name, os.O_WRONLY, 0)
	if err != nil {
		return err
	}
	defer fd.Close()
	return fd.Truncate(size)
}

func Chmod(name string, mode fs.FileMode) error {
	f := current()
	if f == nil {
		return os.Chmod(name, mode)
	}
	f.mu.Lock()
	defer f.mu.Unlock()
	n := f.lookup(name)
	if n == nil {
		return pathErr("chmod", name, syscall.ENOENT)
	}
	n.mode = mode & 0o777
	return nil
}

// ---------------------------------------------------------------------------------------
// filepath-level functions

func EvalSymlinks(p string) (string, error) {
	f := current()
	if f == nil {
		return filepath.EvalSymlinks(p)
	}
	if err, _ := f.step("stat", p, 0, false); err != nil {
		return "", pathErr("lstat", p, err)
	}
	f.mu.Lock()
	defer f.mu.Unlock()
	if f.lookup(p) == nil {
		return "", pathErr("lstat", p, syscall.ENOENT)
	}
	// replace every symbolic link on the way by its target (targets are absolute in this file system)
	abs := strings.HasPrefix(p, "/")
	cur := "/"
	parts := strings.Split(strings.Trim(norm(p), "/"), "/")
	for depth := 0; len(parts) > 0 && depth < 64; depth++ {
		next := path.Join(cur, parts[0])
		parts = parts[1:]
		if n := f.lookupNoFollow(next); n != nil && n.link != "" {
			cur = n.link
			abs = true
			continue
		}
		cur = next
	}
	if !abs {
		return strings.TrimPrefix(cur, "/"), nil
	}
	return cur, nil
}

func Glob(pattern string) ([]string, error) {
	f := current()
	if f == nil {
		return filepath.Glob(pattern)
	}
	var out []string
	dir := path.Dir(pattern)
	es, err := ReadDir(dir)
	if err != nil {
		return nil, nil
	}
	for _, e := range es {
		if ok, _ := path.Match(path.Base(pattern), e.Name()); ok {
			out = append(out, path.Join(dir, e.Name()))
		}
	}
	return out, nil
}

// Walk mirrors filepath.Walk (lexical order, Lstat of the root first, errors handed to fn).
func Walk(root string, fn filepath.WalkFunc) error {
	f := current()
	if f == nil {
		return filepath.Walk(root, fn)
	}
	inf, err := Lstat(root)
	if err != nil {
		err = fn(root, nil, err)
	} else {
		err = f.walk(root, inf, fn)
	}
	if err == filepath.SkipDir || err == filepath.SkipAll {
		return nil
	}
	return err
}

func (f *FS) walk(p string, inf fs.FileInfo, fn filepath.WalkFunc) error {
	if !inf.IsDir() {
		return fn(p, inf, nil)
	}
	es, err := ReadDir(p)
	err1 := fn(p, inf, err)
	if err != nil || err1 != nil {
		return err1
	}
	for _, e := range es {
		child := filepath.Join(p, e.Name())
		ci, err := Lstat(child)
		if err != nil {
			if err := fn(child, ci, err); err != nil && err != filepath.SkipDir {
				return err
			}
			continue
		}
		err = f.walk(child, ci, fn)
		if err != nil {
			if !ci.IsDir() || err != filepath.SkipDir {
				return err
			}
		}
	}
	return nil
}

// WalkDir mirrors filepath.WalkDir.
func WalkDir(root string, fn fs.WalkDirFunc) error {
	f := current()
	if f == nil {
		return filepath.WalkDir(root, fn)
	}
	return Walk(root, func(p string, inf fs.FileInfo, err error) error {
		if inf == nil {
			return fn(p, nil, err)
		}
		return fn(p, inf.(info), err)
	})
}

// ---------------------------------------------------------------------------------------
// harness-side helpers (not logged, not gated)

// Put creates or replaces a file (parents are created) without logging.
func (f *FS) Put(p string, data []byte) {
	f.mu.Lock()
	defer f.mu.Unlock()
	p = norm(p)
	n := f.root
	parts := strings.Split(p[1:], "/")
	for i, part := range parts {
		c := n.children[part]
		last := i == len(parts)-1
		if c == nil {
			if last {
				c = &node{name: part, mode: 0o644}
			} else {
				c = &node{name: part, dir: true, children: map[string]*node{}, mode: 0o755}
			}
			n.children[part] = c
		}
		n = c
	}
	n.data = append([]byte(nil), data...)
}

// PutDir creates a directory and its parents without logging.
func (f *FS) PutDir(p string) {
	f.mu.Lock()
	defer f.mu.Unlock()
	p = norm(p)
	if p == "/" {
		return
	}
	n := f.root
	for _, part := range strings.Split(p[1:], "/") {
		c := n.children[part]
		if c == nil {
			c = &node{name: part, dir: true, children: map[string]*node{}, mode: 0o755}
			n.children[part] = c
		}
		n = c
	}
}

// Delete removes a path without logging.
func (f *FS) Delete(p string) {
	f.mu.Lock()
	defer f.mu.Unlock()
	if par, b := f.parent(p); par != nil {
		delete(par.children, b)
	}
}

// Get returns the content of a file (nil, false if absent or a directory).
func (f *FS) Get(p string) ([]byte, bool) {
	f.mu.Lock()
	defer f.mu.Unlock()
	n := f.lookup(p)
	if n == nil || n.dir {
		return nil, false
	}
	return append([]byte(nil), n.data...), true
}

// Exists reports whether p exists, and whether it is a directory.
func (f *FS) Exists(p string) (bool, bool) {
	f.mu.Lock()
	defer f.mu.Unlock()
	n := f.lookup(p)
	if n == nil {
		return false, false
	}
	return true, n.dir
}

// Snapshot returns path -> content for every file below p ("<dir>" for directories).
func (f *FS) Snapshot(p string) map[string]string {
	f.mu.Lock()
	defer f.mu.Unlock()
	out := map[string]string{}
	var rec func(n *node, at string)
	rec = func(n *node, at string) {
		if n.dir {
			out[at] = "<dir>"
			for k, c := range n.children {
				rec(c, path.Join(at, k))
			}
		} else {
			out[at] = string(n.data)
		}
	}
	if n := f.lookup(p); n != nil {
		rec(n, norm(p))
	}
	return out
}

// MarkBoot records the current tree as the durable state (what survives a power loss unchanged).
func (f *FS) MarkBoot() {
	f.mu.Lock()
	defer f.mu.Unlock()
	var rec func(n *node)
	rec = func(n *node) {
		n.bootExists, n.bootData, n.dirty = true, append([]byte(nil), n.data...), false
		for _, c := range n.children {
			rec(c)
		}
	}
	rec(f.root)
}

// PowerLoss rewrites every file modified since MarkBoot (HIDI never calls Sync) to one of: its new
// content, a strict prefix of it, empty, or its boot state (absent if it did not exist). Directories
// created since boot survive only if pick says so or a child survives. pick(n) returns a value in [0,n).
func (f *FS) PowerLoss(pick func(n int) int) (changed int) {
	f.mu.Lock()
	defer f.mu.Unlock()
	var rec func(n *node) bool // returns whether the node survives
	rec = func(n *node) bool {
		if n.dir {
			names := make([]string, 0, len(n.children))
			for k := range n.children {
				names = append(names, k)
			}
			sort.Strings(names)
			any := false
			for _, k := range names {
				if rec(n.children[k]) {
					any = true
				} else {
					delete(n.children, k)
					changed++
				}
			}
			if n.bootExists || any {
				return true
			}
			return pick(2) == 0
		}
		if !n.dirty {
			return true
		}
		switch pick(4) {
		case 0: // new content made it
		case 1: // torn
			if len(n.data) > 0 {
				n.data = n.data[:pick(len(n.data))]
				changed++
			}
		case 2:
			if len(n.data) > 0 {
				changed++
			}
			n.data = nil
		case 3:
			changed++
			if !n.bootExists {
				return false
			}
			n.data = append([]byte(nil), n.bootData...)
		}
		return true
	}
	rec(f.root)
	return
}
