package main

// W7, the manager world (copied into cmd/hidi of the scratch copy as zz_verif_manager_test.go).
//
// Real code: Manager.Run (cmd/hidi/manager.go) with everything it wires together - config.DetectDeviceConfigChanges
// (over the fsnotify stand-in and simfs), config.LoadDeviceConfigs / FindConfig, utils.DynamicFanOut, device.NewDevice
// and Device.ProcessEvents for every connected device. Stubs: device discovery and evdev access (the two seams in
// deps/input/zz_verif_export.go: the harness announces devices and is the event source of each opened device), the MIDI
// port (two channels), the OpenRGB dial (refused), the file system (simfs).
//
// Workload: devices are plugged and unplugged, a key is pressed on them, MIDI input arrives, and the user edits,
// breaks or creates configuration files in place while all that goes on (each notification makes the manager end
// every device, reload the configurations and reconnect what discovery announces again).
//
// Oracles (statements C12, C19, C16, C15, C01 seen from the application's top level):
//   - after any in-place modification of a device configuration the devices are reloaded (a discovery cycle that started
//     after the last write began), and a key pressed afterwards sounds the note of the file that the precedence order
//     selects for that device among the files that parse, in its latest saved version;
//   - a device whose stream ended (unplug or reload) leaves no note sounding;
//   - when everything is unplugged the manager's device table is empty, and after cancellation Run returns promptly and
//     leaves no goroutine behind.

import (
	"context"
	"encoding/json"
	"fmt"
	"os"
	"sort"
	"strings"
	"sync"
	"testing"
	"time"

	"github.com/fsnotify/fsnotify"
	"github.com/gethiox/HIDI/internal/pkg/input"
	"github.com/gethiox/HIDI/internal/pkg/logger"
	"github.com/gethiox/HIDI/internal/pkg/midi"
	"github.com/gethiox/HIDI/internal/pkg/midi/device"
	"github.com/gethiox/HIDI/internal/pkg/midi/driver"
	"github.com/gethiox/HIDI/verifsim/model"
	"github.com/gethiox/HIDI/verifsim/simfs"
	"github.com/gethiox/HIDI/verifsim/simrt"
	"github.com/gethiox/HIDI/verifsim/worlds"
	"github.com/holoplot/go-evdev"
)

type w7File struct {
	Dir  string `json:"dir"`  // one of the four configuration directories
	Name string `json:"name"` // file name
	Dev  int    `json:"dev"`  // the device whose identifier the file carries, -1 = the zero identifier (default)
}

type w7Op struct {
	Kind   string `json:"kind"` // plug | unplug | tap | hold | release | edit | create | other | midiin | wait
	Dev    int    `json:"dev,omitempty"`
	File   int    `json:"file,omitempty"`
	Chunks int    `json:"chunks,omitempty"`
	Broken bool   `json:"broken,omitempty"` // edit: what is saved does not parse
	Ms     int    `json:"ms,omitempty"`
	// AgainUs: edit: the file is saved a second time this long after the first save (a correction right away): the
	// second save may land while the reload caused by the first one is under way
	AgainUs int `json:"again_us,omitempty"`
	// TruncGapUs: edit: the editor truncates the file and writes its content only this much later: a reload started by
	// the truncation may read the empty file, the write that follows must lead to another reload
	TruncGapUs int `json:"trunc_gap_us,omitempty"`
}

type w7Ops struct {
	Gamepad    []bool   `json:"gamepad"` // per device: joystick (gamepad directories) or keyboard
	Mouse      []bool   `json:"mouse,omitempty"` // per device: not a playable device (mouse): never gets a configuration
	Files      []w7File `json:"files"`
	Ops        []w7Op   `json:"ops"`
	AnnounceMs int      `json:"announce_ms"` // discovery takes this long to announce a device
	OpenFails  int      `json:"open_fails"`  // the first k attempts to open a device fail (node not ready yet)
	SlowOutUs  int      `json:"slow_out_us"` // the MIDI consumer takes this long per message
	DiskUs     int      `json:"disk_us,omitempty"`  // every open / read of the program takes this long (slow storage)
	FloodUs    int      `json:"flood_us,omitempty"` // MIDI input arrives all the time, one message per period
	// ShutdownHeld: the application is shut down (context cancelled, as the exit sequence or SIGTERM do) while a key
	// is held, instead of after everything was unplugged
	ShutdownHeld bool `json:"shutdown_held,omitempty"`
	// NoWatcher: the inotify instance cannot be created (EMFILE); configuration changes cannot be noticed then (the
	// user does not edit anything in these runs), everything else has to work as usual
	NoWatcher bool `json:"no_watcher,omitempty"`
	// ShutdownSaves: the user saves a configuration this many times right before the application is shut down
	// (ShutdownGapMs later): notifications may be pending, a reload may be under way when the context ends
	ShutdownSaves int `json:"shutdown_saves,omitempty"`
	ShutdownGapMs int `json:"shutdown_gap_ms,omitempty"`
}

const keyA = 30 // KEY_A

func w7Dir(user, gamepad bool) string {
	d := configDir
	if user {
		d += "/user"
	} else {
		d += "/factory"
	}
	if gamepad {
		return d + "/gamepad"
	}
	return d + "/keyboard"
}

func genW7(r *simrt.Rng) *w7Ops {
	o := &w7Ops{AnnounceMs: []int{1, 20, 150}[r.Intn(3)]}
	nd := r.Range(1, 3)
	for i := 0; i < nd; i++ {
		o.Gamepad = append(o.Gamepad, r.Chance(0.3))
		o.Mouse = append(o.Mouse, nd > 1 && r.Chance(0.12))
	}
	if r.Chance(0.2) {
		o.OpenFails = r.Range(1, 4)
	}
	if r.Chance(0.25) {
		o.SlowOutUs = []int{100, 2000}[r.Intn(2)]
	}
	if r.Chance(0.4) {
		o.DiskUs = []int{200, 1000, 5000}[r.Intn(3)]
	}
	if r.Chance(0.3) {
		o.FloodUs = []int{300, 2000, 10000}[r.Intn(3)]
	}
	o.ShutdownHeld = r.Chance(0.3)
	o.NoWatcher = r.Chance(0.05)
	if !o.NoWatcher && r.Chance(0.3) {
		o.ShutdownSaves = r.Range(1, 3)
		o.ShutdownGapMs = []int{0, 1, 5, 40, 300}[r.Intn(5)]
	}
	// the factory default of every class in use always exists at the start; the other three ranks per device at random
	for _, gp := range []bool{false, true} {
		used := false
		for _, g := range o.Gamepad {
			used = used || g == gp
		}
		if !used {
			continue
		}
		o.Files = append(o.Files, w7File{Dir: w7Dir(false, gp), Name: "0_default.toml", Dev: -1})
		if r.Chance(0.4) {
			o.Files = append(o.Files, w7File{Dir: w7Dir(true, gp), Name: "my default.toml", Dev: -1})
		}
	}
	for i, gp := range o.Gamepad {
		if r.Chance(0.4) {
			o.Files = append(o.Files, w7File{Dir: w7Dir(false, gp), Name: fmt.Sprintf("device%d.toml", i), Dev: i})
		}
		if r.Chance(0.5) {
			o.Files = append(o.Files, w7File{Dir: w7Dir(true, gp), Name: fmt.Sprintf("mine %d.TOML", i), Dev: i})
		}
	}
	plugged := make([]bool, nd)
	held := -1
	n := r.Range(4, 16)
	for k := 0; k < n; k++ {
		i := r.Intn(nd)
		switch r.Pick(3, 2, 5, 2, 4, 1, 1, 2, 1) {
		case 0:
			if !plugged[i] {
				plugged[i] = true
				o.Ops = append(o.Ops, w7Op{Kind: "plug", Dev: i})
			}
		case 1:
			if plugged[i] {
				plugged[i] = false
				if held == i {
					held = -1
				}
				o.Ops = append(o.Ops, w7Op{Kind: "unplug", Dev: i})
			}
		case 2:
			if plugged[i] && held < 0 {
				o.Ops = append(o.Ops, w7Op{Kind: "tap", Dev: i})
			}
		case 3:
			if plugged[i] && held < 0 {
				held = i
				o.Ops = append(o.Ops, w7Op{Kind: "hold", Dev: i})
			} else if held >= 0 {
				o.Ops = append(o.Ops, w7Op{Kind: "release", Dev: held})
				held = -1
			}
		case 4:
			e := w7Op{Kind: "edit", File: r.Intn(len(o.Files)), Chunks: r.Range(1, 3), Broken: r.Chance(0.2)}
			if r.Chance(0.35) {
				e.AgainUs = []int{300, 1000, 3000, 10000, 30000, 100000}[r.Intn(6)]
				if o.DiskUs > 0 {
					e.AgainUs = o.DiskUs * r.Range(1, 16) // somewhere inside the reload, which takes a dozen slow disk operations
				}
			}
			if r.Chance(0.35) {
				e.TruncGapUs = []int{300, 3000, 10000, 30000, 100000}[r.Intn(5)]
				if o.DiskUs > 0 {
					e.TruncGapUs = o.DiskUs * r.Range(1, 16)
				}
			}
			o.Ops = append(o.Ops, e)
			held = -1 // a reload ends every device: whatever was held has been released by the clean-up
		case 5:
			// a new file appears (created and written in place): the exact user file of a device
			o.Ops = append(o.Ops, w7Op{Kind: "create", Dev: i, Chunks: r.Range(1, 2)})
			held = -1
		case 6:
			o.Ops = append(o.Ops, w7Op{Kind: "other", File: r.Intn(len(o.Files))})
		case 7:
			o.Ops = append(o.Ops, w7Op{Kind: "midiin"})
		case 8:
			o.Ops = append(o.Ops, w7Op{Kind: "wait", Ms: r.Range(1, 400)})
		}
	}
	return o
}

func shrinkW7(raw json.RawMessage) []json.RawMessage {
	var o w7Ops
	if json.Unmarshal(raw, &o) != nil {
		return nil
	}
	var out []json.RawMessage
	emit := func(c w7Ops) {
		b, _ := json.Marshal(c)
		out = append(out, b)
	}
	for i := range o.Ops {
		c := o
		c.Ops = append(append([]w7Op(nil), o.Ops[:i]...), o.Ops[i+1:]...)
		emit(c)
	}
	for i, op := range o.Ops {
		if op.AgainUs > 0 {
			c := o
			c.Ops = append([]w7Op(nil), o.Ops...)
			c.Ops[i].AgainUs = 0
			emit(c)
		}
		if op.TruncGapUs > 0 {
			c := o
			c.Ops = append([]w7Op(nil), o.Ops...)
			c.Ops[i].TruncGapUs = 0
			emit(c)
		}
		if op.Chunks > 1 || op.Broken {
			c := o
			c.Ops = append([]w7Op(nil), o.Ops...)
			c.Ops[i].Chunks, c.Ops[i].Broken = 1, false
			emit(c)
		}
	}
	if o.OpenFails > 0 || o.SlowOutUs > 0 || o.AnnounceMs > 1 {
		c := o
		c.OpenFails, c.SlowOutUs, c.AnnounceMs = 0, 0, 1
		emit(c)
	}
	if o.DiskUs > 0 {
		c := o
		c.DiskUs = 0
		emit(c)
	}
	if o.FloodUs > 0 {
		c := o
		c.FloodUs = 0
		emit(c)
	}
	if o.ShutdownHeld {
		c := o
		c.ShutdownHeld = false
		emit(c)
	}
	if o.ShutdownSaves > 0 {
		c := o
		c.ShutdownSaves--
		emit(c)
	}
	return out
}

// content of file fi in version v: the note and the channel of KEY_A tell which file and version is in force
func w7Content(o *w7Ops, fi, v int, broken bool) []byte {
	f := o.Files[fi]
	d := &model.Desc{Mode: "off", Channel: fi%16 + 1, HasChan: true, Velocity: 64, HasVel: true, Mapping: "M0", Colors: map[string]int{},
		Mappings: []model.MappingDesc{{Name: "M0", Keys: []model.SubKeys{{Sub: "", Keys: []model.KeyDesc{{Name: "KEY_A", Code: keyA, Note: 10 + v%100, NoteText: fmt.Sprint(10 + v%100)}}}}}}}
	for _, c := range []string{"white", "black", "c", "unavailable", "other", "active", "active_external"} {
		d.Colors[c] = 0x101010
	}
	if f.Dev >= 0 {
		d.ID = [4]uint16{3, 0x1234, uint16(0x20 + f.Dev), 1}
	}
	t := d.TOML()
	if broken {
		t = strings.Replace(t, "collision_mode", "collision_mode = = ", 1)
	}
	return []byte(t)
}

type w7Dev struct {
	ctx    context.Context
	ch     chan *input.InputEvent
	queue  []*input.InputEvent
	closed bool
}

func runW7(t *testing.T, job *worlds.Job, seed uint64, rp *worlds.Replay) worlds.RunOut {
	ro := worlds.RunOut{Faults: map[string]int{}, Probes: map[string]int{}}
	r := simrt.NewRng(seed, "workload")
	ops := genW7(r)
	if rp != nil && rp.Override && len(rp.Ops) > 0 {
		var o w7Ops
		if err := json.Unmarshal(rp.Ops, &o); err != nil {
			ro.Infra = "bad replay ops"
			return ro
		}
		ops = &o
	}
	nd := len(ops.Gamepad)
	scfg, pol := worlds.SchedConfig(seed, simrt.NewRng(seed, "schedcfg"))
	ro.Policy = pol
	fsys := simfs.New()
	fsys.NoGates = false
	for _, u := range []bool{false, true} {
		for _, g := range []bool{false, true} {
			fsys.PutDir(w7Dir(u, g))
		}
	}
	files := append([]w7File(nil), ops.Files...)
	version := map[int]int{} // file index -> version of the last complete save
	brokenNow := map[int]bool{}
	for fi := range files {
		fsys.Put(files[fi].Dir+"/"+files[fi].Name, w7Content(&w7Ops{Files: files}, fi, 0, false))
	}
	var devs []input.Device
	for i := 0; i < nd; i++ {
		id := input.InputID{Bus: 3, Vendor: 0x1234, Product: uint16(0x20 + i), Version: 1}
		typ := input.KeyboardDevice
		if ops.Gamepad[i] {
			typ = input.JoystickDevice
		}
		if i < len(ops.Mouse) && ops.Mouse[i] {
			typ = input.MouseDevice
		}
		ev := fmt.Sprintf("event%d", 40+i)
		di := input.NewDeviceInfoForSim(fmt.Sprintf("Sim Device %d", i), fmt.Sprintf("usb-sim-%d/input0", i), ev, id, nil)
		devs = append(devs, input.Device{ID: id, Name: fmt.Sprintf("Sim Device %d", i), Phys: fmt.Sprintf("usb-sim-%d", i), DeviceType: typ,
			Handlers: []input.Handler{{Name: "", DeviceInfo: di}}, AbsInfos: map[string]map[evdev.EvCode]evdev.AbsInfo{ev: {}}})
	}
	// expected: the file the precedence order selects for device i among those that parse
	expected := func(i int) int {
		best, bestRank := -1, 99
		if i < len(ops.Mouse) && ops.Mouse[i] {
			return -1 // unsupported device type: skipped with an error
		}
		for fi, f := range files {
			if brokenNow[fi] || (f.Dev >= 0 && f.Dev != i) {
				continue
			}
			if f.Dir != w7Dir(true, ops.Gamepad[i]) && f.Dir != w7Dir(false, ops.Gamepad[i]) {
				continue
			}
			rank := 0
			if f.Dir == w7Dir(false, ops.Gamepad[i]) {
				rank = 2
			}
			if f.Dev < 0 {
				rank++
			}
			if rank < bestRank {
				best, bestRank = fi, rank
			}
		}
		return best
	}

	var mu sync.Mutex // harness state; never held across a gate
	plugged := make([]bool, nd)
	open := make([]*w7Dev, nd)
	openFailsLeft := ops.OpenFails
	cycles, lastCycleStart, lastCycleStep := 0, time.Duration(-1), -1
	opens := 0
	var vio *worlds.Vio
	var got [][]byte
	bb, _ := json.Marshal(ops)
	mk := func(props []string, clause, detail string) {
		mu.Lock()
		defer mu.Unlock()
		if vio == nil {
			vio = &worlds.Vio{Props: props, Clause: clause, Detail: detail}
			// should the run not end cleanly after this, the verdict is reported from the unclean-exit path
			worlds.NotePending(vio, &worlds.Replay{World: "W7", Prop: job.Prop, Seed: seed, Tier: job.Tier, Ops: bb, Override: true})
		}
	}
	failed := func() bool { mu.Lock(); defer mu.Unlock(); return vio != nil }
	sounding := map[[2]byte]int{}

	res := simrt.Run(t, scfg, func() {
		logger.Messages = make(chan []byte, 1024)
		stop := make(chan struct{})
		go func() {
			for {
				select {
				case <-logger.Messages:
				case <-stop:
					return
				}
			}
		}()
		defer close(stop)
		simfs.Attach(fsys)
		defer simfs.Attach(nil)
		fsys.MarkUserTask() // this task is the user who edits files
		if ops.DiskUs > 0 {
			fsys.Delay = func(kind, path string) time.Duration {
				if kind == "open" || kind == "read" || kind == "readdir" {
					return time.Duration(ops.DiskUs) * time.Microsecond
				}
				return 0
			}
		}
		fsnotify.Subscribe = fsys.Subscribe
		fsnotify.Go = simrt.Go
		fsnotify.Yield = simrt.Yield
		fsnotify.NewWatcherErr = nil
		if ops.NoWatcher {
			fsnotify.NewWatcherErr = fmt.Errorf("too many open files")
		}
		defer func() { fsnotify.NewWatcherErr = nil }()
		input.SimMonitorNewDevices = func(ctx context.Context) <-chan input.Device {
			ch := make(chan input.Device)
			mu.Lock()
			cycles++
			lastCycleStart = simrt.Now()
			lastCycleStep = simrt.Steps() // simulated time stands still while nothing sleeps: order by scheduling step
			mu.Unlock()
			simrt.GoDetached("sim-discovery", func() {
				announced := map[int]bool{}
				for ctx.Err() == nil {
					simrt.Sleep(time.Duration(ops.AnnounceMs) * time.Millisecond)
					mu.Lock()
					var todo []int
					for i := range plugged {
						if plugged[i] && !announced[i] {
							todo = append(todo, i)
						}
						if !plugged[i] {
							delete(announced, i) // plugged in again later: a new device
						}
					}
					mu.Unlock()
					for _, i := range todo {
						if ctx.Err() != nil {
							break
						}
						announced[i] = true
						simrt.Send(ch, devs[i])
					}
				}
				simrt.Close(ch)
			})
			return ch
		}
		input.SimOpenDevice = func(d *input.Device, ctx context.Context) (<-chan *input.InputEvent, error) {
			i := int(d.ID.Product) - 0x20
			mu.Lock()
			if !plugged[i] {
				mu.Unlock()
				return nil, fmt.Errorf("opening handler failed: no such device")
			}
			if openFailsLeft > 0 {
				openFailsLeft--
				mu.Unlock()
				return nil, fmt.Errorf("opening handler failed: permission denied")
			}
			dv := &w7Dev{ctx: ctx, ch: make(chan *input.InputEvent, 8)}
			open[i] = dv
			opens++
			mu.Unlock()
			simrt.GoDetached("sim-evdev", func() {
				for {
					mu.Lock()
					gone := ctx.Err() != nil || !plugged[i] || open[i] != dv
					var ev *input.InputEvent
					if !gone && len(dv.queue) > 0 {
						ev, dv.queue = dv.queue[0], dv.queue[1:]
					}
					mu.Unlock()
					if gone {
						mu.Lock()
						dv.closed = true
						if open[i] == dv {
							open[i] = nil
						}
						mu.Unlock()
						simrt.Close(dv.ch)
						return
					}
					if ev != nil {
						simrt.Send(dv.ch, ev)
						continue
					}
					simrt.Sleep(2 * time.Millisecond)
				}
			})
			return dv.ch, nil
		}
		defer func() { input.SimMonitorNewDevices, input.SimOpenDevice = nil, nil }()

		// wired as in main(): one context for the relay between the channels and the MIDI port and for the manager
		midiOut := make(chan midi.Event, 8)
		midiIn := make(chan midi.Event, 8)
		ctx, cancel := context.WithCancel(context.Background())
		po := &w7Out{c: make(chan []byte, 16)}
		pi := &w7In{c: make(chan []byte, 16)}
		var score midi.Score
		midi.ProcessMidiEvents(ctx, driver.Port{Input: pi, Output: po}, midiOut, midiIn, &score)
		sigs := make(chan os.Signal, 1)
		var dm simrt.Mutex
		table := map[*device.Device]*device.Device{}
		mgr := NewManager(ManagerConfig{HIDI: HIDIConfig{HIDI: HIDI{EVThrottling: 5 * time.Millisecond, DiscoveryRate: time.Second, StabilizationPeriod: time.Second}}, NoLogs: true, OpenRGBPort: 6742},
			midiOut, midiIn, &dm, table, sigs)
		runDone, mgrTask := false, ""
		simrt.Go("manager", func() {
			mu.Lock()
			mgrTask = simrt.SelfID()
			mu.Unlock()
			mgr.Run(ctx)
			mu.Lock()
			runDone = true
			mu.Unlock()
		})
		simrt.Go("midi-consumer", func() {
			for {
				ev, ok := simrt.Recv(po.c)
				if !ok {
					return
				}
				mu.Lock()
				got = append(got, append([]byte(nil), ev...))
				mu.Unlock()
				if ops.SlowOutUs > 0 {
					simrt.Sleep(time.Duration(ops.SlowOutUs) * time.Microsecond)
				}
			}
		})
		floodStop, floodDone := false, ops.FloodUs == 0
		if ops.FloodUs > 0 {
			simrt.Go("midi-flood", func() {
				for n := 0; ; n++ {
					mu.Lock()
					st := floodStop
					mu.Unlock()
					if st {
						break
					}
					simrt.Send(pi.c, []byte{0x90 | byte(n%16), byte(n % 128), 64})
					simrt.Sleep(time.Duration(ops.FloodUs) * time.Microsecond)
				}
				mu.Lock()
				floodDone = true
				mu.Unlock()
			})
		}
		take := func() [][]byte {
			mu.Lock()
			defer mu.Unlock()
			g := got
			got = nil
			for _, b := range g {
				if len(b) == 3 {
					k := [2]byte{b[0] & 0x0f, b[1]}
					switch b[0] & 0xf0 {
					case 0x90:
						sounding[k]++
					case 0x80:
						if sounding[k] > 0 {
							sounding[k]--
						}
					}
				}
			}
			return g
		}
		// settle: every plugged device that has a configuration is open under a live context, and no discovery cycle
		// or open has happened for 600 simulated ms
		settle := func(what string) bool {
			deadline := simrt.Now() + 30*time.Second
			lastSeen, stableSince := -1, simrt.Now()
			for simrt.Now() < deadline && !failed() {
				simrt.WaitIdle()
				mu.Lock()
				snap := cycles*1000 + opens
				ready := true
				for i := range plugged {
					want := plugged[i] && expected(i) >= 0
					have := open[i] != nil && open[i].ctx.Err() == nil && !open[i].closed
					if want != have {
						ready = false
					}
				}
				mu.Unlock()
				if snap != lastSeen || !ready {
					lastSeen, stableSince = snap, simrt.Now()
				} else if simrt.Now()-stableSince >= 600*time.Millisecond {
					return true
				}
				simrt.Sleep(50 * time.Millisecond)
			}
			if !failed() {
				mu.Lock()
				var st []string
				for i := range plugged {
					st = append(st, fmt.Sprintf("dev%d plugged=%v open=%v expects-file=%d", i, plugged[i], open[i] != nil && open[i].ctx.Err() == nil, expected(i)))
				}
				c := cycles
				mu.Unlock()
				mk([]string{"C19", "C12", "C16"}, "devices_not_reconnected", fmt.Sprintf("30 simulated seconds after %s the connected devices are not all served again (%d discovery cycles so far): %s", what, c, strings.Join(st, "; ")))
			}
			return false
		}
		send := func(i int, v int32) bool {
			mu.Lock()
			defer mu.Unlock()
			if open[i] == nil {
				return false
			}
			open[i].queue = append(open[i].queue, &input.InputEvent{Source: devs[i].Handlers[0], Event: evdev.InputEvent{Type: evdev.EV_KEY, Code: keyA, Value: v}})
			return true
		}
		drain := func() [][]byte {
			var all [][]byte
			for k := 0; k < 40; k++ {
				simrt.WaitIdle()
				simrt.Sleep(5 * time.Millisecond)
				simrt.WaitIdle()
				g := take()
				all = append(all, g...)
				if len(g) == 0 && k > 0 {
					break
				}
			}
			return all
		}
		checkPress := func(i int, release bool) {
			fi := expected(i)
			if fi < 0 {
				return
			}
			wantCh, wantNote := byte(fi%16), byte(10+version[fi]%100)
			send(i, 1)
			ms := drain()
			if len(ms) != 1 || ms[0][0] != 0x90|wantCh || ms[0][1] != wantNote {
				f := files[fi]
				mk([]string{"C12", "C19"}, "wrong_configuration_in_force", fmt.Sprintf("device %d: KEY_A must sound note %d on channel %d (file %s/%s, saved %d times, is what the precedence order selects among the files that parse), got %s",
					i, wantNote, wantCh+1, f.Dir, f.Name, version[fi], flatMsgs(ms)))
				return
			}
			if release {
				send(i, 0)
				ms = drain()
				if len(ms) != 1 || ms[0][0] != 0x80|wantCh || ms[0][1] != wantNote {
					mk([]string{"C01", "C16"}, "release_lost", fmt.Sprintf("device %d: the release of KEY_A must send the Note Off of note %d on channel %d, got %s", i, wantNote, wantCh+1, flatMsgs(ms)))
				}
			}
		}
		silent := func(what string) {
			drain()
			mu.Lock()
			var on []string
			for k, n := range sounding {
				if n > 0 {
					on = append(on, fmt.Sprintf("ch%d:%d", k[0]+1, k[1]))
				}
			}
			mu.Unlock()
			sort.Strings(on)
			if len(on) > 0 {
				mk([]string{"C01", "C16", "C15"}, "note_left_sounding", fmt.Sprintf("after %s (the stream of the device that held the key has ended) these notes are still sounding at the receiver: %v", what, on))
			}
		}
		truncGap := time.Duration(0)
		writeFile := func(p string, data []byte, chunks int, create bool) [2]int64 {
			start := [2]int64{int64(simrt.Steps()), int64(simrt.Now())}
			flag := os.O_WRONLY | os.O_TRUNC
			if create {
				flag |= os.O_CREATE
			}
			f, err := simfs.OpenFile(p, flag, 0o644)
			if err != nil {
				return start
			}
			if chunks < 1 {
				chunks = 1
			}
			if truncGap > 0 {
				simrt.Sleep(truncGap)
			}
			sz := (len(data) + chunks - 1) / chunks
			for c := 0; c < chunks; c++ {
				lo, hi := c*sz, (c+1)*sz
				if lo > len(data) {
					lo = len(data)
				}
				if hi > len(data) {
					hi = len(data)
				}
				// every write() is a modification: the last one is what a reload has to follow
				start = [2]int64{int64(simrt.Steps()), int64(simrt.Now())}
				f.Write(data[lo:hi])
				if c+1 < chunks {
					simrt.Sleep(3 * time.Millisecond)
				}
			}
			f.Close()
			return start
		}
		reloaded := func(what string, ws [2]int64) {
			writeStart := time.Duration(ws[1])
			// no bound is stated; the manager may legitimately be busy for its own 5 s give-up timer (a device that
			// cannot be opened) before it looks at the notification: wait 12 simulated seconds before concluding
			deadline := simrt.Now() + 12*time.Second
			for {
				mu.Lock()
				ls := lastCycleStep
				mu.Unlock()
				if int64(ls) > ws[0] || simrt.Now() > deadline || failed() {
					break
				}
				simrt.Sleep(50 * time.Millisecond)
				simrt.WaitIdle()
			}
			mu.Lock()
			lc, ls := lastCycleStart, lastCycleStep
			mu.Unlock()
			if int64(ls) <= ws[0] && !failed() {
				mk([]string{"C19"}, "modification_not_followed_by_reload", fmt.Sprintf("%s began at t=%v; the last discovery cycle (the devices being reconnected with freshly loaded configurations) started at t=%v, before it", what, writeStart, lc))
			}
		}

		// the application is up once its first discovery cycle runs (the initial load may be slow)
		for k := 0; k < 3000; k++ {
			simrt.WaitIdle()
			mu.Lock()
			c := cycles
			mu.Unlock()
			if c > 0 {
				break
			}
			simrt.Sleep(10 * time.Millisecond)
		}
		held := -1
		isPlugged := func(i int) bool { mu.Lock(); defer mu.Unlock(); return i < len(plugged) && plugged[i] }
		for k, op := range ops.Ops {
			if failed() {
				break
			}
			_ = k
			if ops.NoWatcher && (op.Kind == "edit" || op.Kind == "create" || op.Kind == "other") {
				continue
			}
			switch op.Kind {
			case "plug":
				mu.Lock()
				plugged[op.Dev] = true
				mu.Unlock()
				ro.Faults["hot_plug"]++
			case "unplug":
				mu.Lock()
				plugged[op.Dev] = false
				mu.Unlock()
				ro.Faults["unplug"]++
				if settle(fmt.Sprintf("unplugging device %d", op.Dev)) && held == op.Dev {
					silent(fmt.Sprintf("unplugging device %d with KEY_A held", op.Dev))
					held = -1
					ro.Faults["unplug_with_key_held"]++
				}
			case "tap":
				if isPlugged(op.Dev) && held < 0 && settle("the previous operation") {
					checkPress(op.Dev, true)
				}
			case "hold":
				if isPlugged(op.Dev) && held < 0 && settle("the previous operation") {
					checkPress(op.Dev, false)
					held = op.Dev
				}
			case "release":
				if held == op.Dev && settle("the previous operation") {
					send(op.Dev, 0)
					silent("the release of KEY_A")
					held = -1
				}
			case "edit":
				fi := op.File
				f := files[fi]
				data := w7Content(&w7Ops{Files: files}, fi, version[fi]+1, op.Broken)
				truncGap = time.Duration(op.TruncGapUs) * time.Microsecond
				ws := writeFile(f.Dir+"/"+f.Name, data, op.Chunks, false)
				truncGap = 0
				if op.TruncGapUs > 0 {
					ro.Faults["write_some_time_after_truncation"]++
				}
				version[fi]++
				if op.AgainUs > 0 {
					// ... and once more right away, with other content again: that one is what must be in force
					simrt.Sleep(time.Duration(op.AgainUs) * time.Microsecond)
					data = w7Content(&w7Ops{Files: files}, fi, version[fi]+1, op.Broken)
					ws = writeFile(f.Dir+"/"+f.Name, data, 1, false)
					version[fi]++
					ro.Faults["config_saved_again_right_away"]++
				}
				brokenNow[fi] = op.Broken
				ro.Faults["config_saved_in_place"]++
				if op.Broken {
					ro.Faults["config_saved_broken"]++
				}
				if op.Chunks > 1 {
					ro.Faults["multi_write_save"]++
				}
				reloaded(fmt.Sprintf("saving %s/%s", f.Dir, f.Name), ws)
				if settle(fmt.Sprintf("saving %s/%s", f.Dir, f.Name)) {
					if held >= 0 {
						silent("the reload that followed a saved configuration (KEY_A was held)")
						held = -1
						ro.Faults["reload_with_key_held"]++
					}
					// what was saved last is what every connected device must play with now
					for i := range plugged {
						if isPlugged(i) && !failed() && settle("the reload") {
							checkPress(i, true)
						}
					}
				}
			case "create":
				gp := ops.Gamepad[op.Dev]
				dup := false
				for _, f := range files {
					dup = dup || (f.Dev == op.Dev && f.Dir == w7Dir(true, gp))
				}
				if dup {
					break // two user files for one identifier: the statement does not say which of them wins
				}
				nf := w7File{Dir: w7Dir(true, gp), Name: fmt.Sprintf("new %d-%d.toml", op.Dev, len(files)), Dev: op.Dev}
				files = append(files, nf)
				fi := len(files) - 1
				data := w7Content(&w7Ops{Files: files}, fi, 1, false)
				ws := writeFile(nf.Dir+"/"+nf.Name, data, op.Chunks, true)
				version[fi] = 1
				ro.Faults["config_created"]++
				reloaded("creating "+nf.Name, ws)
				if settle("creating " + nf.Name) {
					if held >= 0 {
						silent("the reload that followed a new configuration (KEY_A was held)")
						held = -1
					}
				}
			case "other":
				// a file that is not a device configuration: must not disturb anything
				f := files[op.File]
				mu.Lock()
				c0 := cycles
				mu.Unlock()
				simfs.WriteFile(f.Dir+"/notes.txt", []byte("x"), 0o644)
				simfs.WriteFile(configDir+"/hidi.toml", []byte("[HIDI]\n"), 0o644)
				simrt.Sleep(300 * time.Millisecond)
				simrt.WaitIdle()
				mu.Lock()
				c1 := cycles
				mu.Unlock()
				if c1 != c0 {
					mk([]string{"C19"}, "reload_without_configuration_change", fmt.Sprintf("writing %s/notes.txt and %s/hidi.toml made the manager reconnect the devices (%d -> %d discovery cycles)", f.Dir, configDir, c0, c1))
				}
			case "midiin":
				for j := 0; j < 3; j++ {
					simrt.Send(pi.c, []byte{0x90, byte(60 + j), 100})
				}
				ro.Faults["midi_input_burst"]++
			case "wait":
				simrt.Sleep(time.Duration(op.Ms) * time.Millisecond)
			}
		}
		// the end: everything is unplugged, then the application shuts down - or it is shut down with a key held
		shutdownHeld := false
		if ops.ShutdownHeld && !failed() && held < 0 {
			for i := range plugged {
				if isPlugged(i) && expected(i) >= 0 && settle("the previous operation") {
					checkPress(i, false)
					held, shutdownHeld = i, !failed()
					ro.Faults["shutdown_with_key_held"]++
					break
				}
			}
		}
		if !failed() && !shutdownHeld {
			mu.Lock()
			for i := range plugged {
				plugged[i] = false
			}
			mu.Unlock()
			if settle("unplugging everything") {
				silent("unplugging everything")
				simrt.Sleep(200 * time.Millisecond)
				simrt.WaitIdle()
				dm.Lock()
				n := len(table)
				dm.Unlock()
				if n != 0 {
					mk([]string{"C16", "C15"}, "device_table_not_empty", fmt.Sprintf("every device is unplugged and its processing has ended, the manager's device table still holds %d entries (removal did not complete)", n))
				}
			}
		}
		// MIDI input stops before the shutdown (the relay stops reading it when the context ends)
		mu.Lock()
		floodStop = true
		mu.Unlock()
		for k := 0; k < 500; k++ {
			mu.Lock()
			fd := floodDone
			mu.Unlock()
			if fd {
				break
			}
			simrt.Sleep(10 * time.Millisecond)
		}
		if ops.ShutdownSaves > 0 && len(files) > 0 && !failed() {
			// saves right before the shutdown: the same content again, nothing about the configuration changes
			for k := 0; k < ops.ShutdownSaves; k++ {
				fi := k % len(files)
				writeFile(files[fi].Dir+"/"+files[fi].Name, w7Content(&w7Ops{Files: files}, fi, version[fi], brokenNow[fi]), 1, false)
			}
			ro.Faults["save_right_before_shutdown"]++
			simrt.Sleep(time.Duration(ops.ShutdownGapMs) * time.Millisecond)
		}
		cancel()
		deadline := simrt.Now() + 10*time.Second
		for simrt.Now() < deadline {
			simrt.WaitIdle()
			mu.Lock()
			d := runDone
			mu.Unlock()
			if d {
				break
			}
			simrt.Sleep(20 * time.Millisecond)
		}
		mu.Lock()
		d, tid := runDone, mgrTask
		mu.Unlock()
		if !d {
			mk([]string{"C16", "C15", "C19"}, "manager_does_not_return", fmt.Sprintf("Manager.Run has not returned 10 simulated seconds after cancellation (alive below it: %v)", simrt.AliveUnder(tid)))
			simrt.Stop()
			return
		}
		// as main() does once Run has returned: the output channel is closed
		simrt.Close(midiOut)
		if shutdownHeld {
			// the held key's device ended with the context: its clean-up Note Off must have reached the port
			silent("shutting the application down with KEY_A held (the context was cancelled, Manager.Run has returned, the output channel is closed)")
		}
		// the fan-out's reader lives as long as the application's MIDI input (main never closes it): end that too
		simrt.Close(midiIn)
		simrt.Close(pi.c)
		simrt.WaitIdle()
		if alive := simrt.AliveUnder(tid); len(alive) > 0 && !failed() {
			mk([]string{"C16", "C19"}, "background_activity_left", fmt.Sprintf("after Manager.Run returned these goroutines it started are still alive: %v", alive))
		}
		simrt.Sleep(50 * time.Millisecond)
		simrt.WaitIdle()
		simrt.Close(po.c)
	})
	ro.Steps, ro.SimTime, ro.Hash, ro.Choices = res.Steps, res.SimTime, res.SchedHash, res.Choices
	ro.Nontriv = true
	for _, p := range res.Panics {
		if strings.Contains(p.Value, "SIMGEN-UNSUPPORTED") {
			ro.Infra = p.Value
		} else if vio == nil {
			vio = &worlds.Vio{Props: []string{"C16", "C19", "C12", "C15", "C01"}, Clause: "panic", Detail: "panic in " + p.Task + ": " + p.Value + " " + shortStack(p.Stack)}
		}
	}
	if res.Stuck && vio == nil {
		ro.Infra = "run stuck: " + res.StuckInfo
	}
	if ops.OpenFails > 0 {
		ro.Faults["device_open_fails_first"]++
	}
	if ops.SlowOutUs > 0 {
		ro.Faults["slow_midi_consumer"]++
	}
	if ops.DiskUs > 0 {
		ro.Faults["slow_storage"]++
	}
	if ops.NoWatcher {
		ro.Faults["inotify_unavailable"]++
	}
	if ops.FloodUs > 0 {
		ro.Faults["midi_input_all_the_time"]++
	}
	for _, m := range ops.Mouse {
		if m {
			ro.Faults["unsupported_device_connected"]++
		}
	}
	ro.Probes["discovery_cycles"] += cycles
	ro.Probes["device_opens"] += opens
	if vio != nil {
		ro.Vio = vio
		ro.Replay = &worlds.Replay{World: "W7", Prop: job.Prop, Seed: seed, Tier: job.Tier, Ops: bb, Override: true, Trace: res.Trace, Config: string(bb)}
	}
	ro.Sample = fmt.Sprintf("seed=%d policy=%s ops=%s", seed, pol, string(bb))
	if len(ro.Sample) > 900 {
		ro.Sample = ro.Sample[:900] + "..."
	}
	return ro
}

// the MIDI port of this world
type w7Out struct{ c chan []byte }

func (o *w7Out) Name() string               { return "sim out" }
func (o *w7Out) Open() error                { return nil }
func (o *w7Out) Close() error               { return nil }
func (o *w7Out) SendChannel() chan<- []byte { return o.c }

type w7In struct{ c chan []byte }

func (i *w7In) Name() string                  { return "sim in" }
func (i *w7In) Open() error                   { return nil }
func (i *w7In) Close() error                  { return nil }
func (i *w7In) ReceiveChannel() <-chan []byte { return i.c }

func flatMsgs(ms [][]byte) string {
	var s []string
	for _, m := range ms {
		s = append(s, fmt.Sprintf("% x", m))
	}
	return "[" + strings.Join(s, ", ") + "]"
}

func shortStack(s string) string {
	var out []string
	for _, l := range strings.Split(s, "\n") {
		if strings.Contains(l, "HIDI/internal") || strings.Contains(l, "HIDI/cmd") {
			out = append(out, strings.TrimSpace(l))
		}
		if len(out) > 8 {
			break
		}
	}
	return strings.Join(out, " | ")
}
