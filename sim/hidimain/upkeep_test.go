package main

// Simulation harness for the code that lives in package main (copied into cmd/hidi of the scratch copy
// as zz_verif_upkeep_test.go): start-up upkeep (C18) and hidi.toml loading (C09, second part).
//
// The binary is started without -test flags (cmd/hidi's init() calls flag.Parse()); the job comes
// through $VERIF_JOB exactly as for the other worlds.

import (
	"encoding/json"
	"fmt"
	"io/fs"
	"sort"
	"strings"
	"testing"

	"github.com/gethiox/HIDI/internal/pkg/logger"
	"github.com/gethiox/HIDI/verifsim/model"
	"github.com/gethiox/HIDI/verifsim/simfs"
	"github.com/gethiox/HIDI/verifsim/simrt"
	"github.com/gethiox/HIDI/verifsim/worlds"
)

func TestWorker(t *testing.T) {
	worlds.RegisterWorld("W5", runW5)
	worlds.RegisterWorld("W5H", runW5H)
	worlds.RegisterShrinker("W5", shrinkW5)
	worlds.RegisterWorld("W7", runW7)
	worlds.RegisterShrinker("W7", shrinkW7)
	go func(c <-chan []byte) { // the channel of this moment: runs install their own inside the bubble
		for range c {
		}
	}(logger.Messages)
	worlds.WorkerMain(t)
}

// ---- template ----

type tmplEntry struct {
	path string
	dir  bool
	data []byte
}

var tmplCache []tmplEntry

func template() []tmplEntry {
	if tmplCache != nil {
		return tmplCache
	}
	fs.WalkDir(templateConfig, configDir, func(p string, d fs.DirEntry, err error) error {
		if err != nil {
			return err
		}
		e := tmplEntry{path: p, dir: d.IsDir()}
		if !e.dir {
			e.data, _ = fs.ReadFile(templateConfig, p)
		}
		tmplCache = append(tmplCache, e)
		return nil
	})
	return tmplCache
}

func isFactory(p string) bool {
	return p == configDir+"/factory" || strings.HasPrefix(p, configDir+"/factory/")
}

const blacklist = configDir + "/device blacklist.txt"

// ---- initial tree description (also the replay format) ----

type w5File struct {
	Path string `json:"path"`
	// State: intact | absent | truncated | modified
	State string `json:"state"`
	Cut   int    `json:"cut,omitempty"`
	Data  []byte `json:"data,omitempty"`
}

type w5Tree struct {
	NoConfigDir bool     `json:"no_config_dir"`
	Factory     []w5File `json:"factory"`      // one entry per embedded factory file
	MissingDirs []string `json:"missing_dirs"` // factory directories that do not exist
	User        []w5File `json:"user"`         // files under user/, hidi.toml, blacklist, extras (State: intact = template content, modified = Data, absent)
	// LinkedDir: this factory directory is a symbolic link to a directory kept elsewhere (the loader follows such
	// links): its files are restored all the same
	LinkedDir string `json:"linked_dir,omitempty"`
	// Fault plan for this evaluation: empty = enumerate every crash point
	Only *w5Fault `json:"only,omitempty"`
}

type w5Fault struct {
	Kind   string `json:"kind"` // crash | torn | eio | enospc | eacces | powerloss
	AtMut  int    `json:"at_mut,omitempty"`
	AtOp   int    `json:"at_op,omitempty"`
	ShortN int    `json:"short_n,omitempty"`
	Seed   uint64 `json:"seed,omitempty"`
}

func genW5(r *simrt.Rng) *w5Tree {
	tr := &w5Tree{}
	if r.Chance(0.12) {
		tr.NoConfigDir = true
		return tr
	}
	mode := r.Intn(4) // 0: mostly intact, 1: mostly broken, 2: mixed, 3: everything absent
	for _, e := range template() {
		if !isFactory(e.path) {
			continue
		}
		if e.dir {
			if e.path != configDir+"/factory" && (mode == 3 || r.Chance(0.1)) {
				tr.MissingDirs = append(tr.MissingDirs, e.path)
			}
			continue
		}
		f := w5File{Path: e.path, State: "intact"}
		p := []float64{0.1, 0.8, 0.45, 1}[mode]
		if r.Chance(p) {
			switch r.Intn(5) {
			case 0:
				f.State = "absent"
			case 1:
				f.State = "truncated"
				f.Cut = r.Intn(len(e.data) + 1)
			case 2: // same length, one byte changed
				f.State = "modified"
				f.Data = append([]byte(nil), e.data...)
				if len(f.Data) > 0 {
					f.Data[r.Intn(len(f.Data))] ^= byte(1 + r.Intn(255))
				}
			case 3: // longer
				f.State = "modified"
				f.Data = append(append([]byte(nil), e.data...), []byte("\n# local edit\n")...)
			case 4: // unrelated content
				f.State = "modified"
				f.Data = []byte(fmt.Sprintf("garbage %d\n", r.Intn(1000)))
			}
		}
		tr.Factory = append(tr.Factory, f)
	}
	if r.Chance(0.08) {
		tr.MissingDirs = append(tr.MissingDirs, configDir+"/factory")
	}
	// user side
	userFile := func(p string) {
		data := []byte(fmt.Sprintf("# user file %s\ncollision_mode = \"off\"\nx = %d\n", p, r.Intn(100000)))
		switch r.Intn(6) {
		case 0:
			data = []byte{} // emptied by the user
		case 1:
			data = []byte("\n")
		}
		tr.User = append(tr.User, w5File{Path: p, State: "modified", Data: data})
	}
	names := []string{"0_default.toml", "my keyboard.toml", "PS4_Controller.toml", "notes.txt", "a.TOML", ".hidden"}
	for _, d := range []string{"/user/keyboard/", "/user/gamepad/"} {
		for _, n := range names {
			if r.Chance(0.3) {
				userFile(configDir + d + n)
			}
		}
	}
	if r.Chance(0.5) {
		userFile(configDir + "/user/README.md")
	}
	if r.Chance(0.3) {
		userFile(configDir + "/user/keyboard/sub/nested.toml")
	}
	switch r.Intn(4) {
	case 0:
		tr.User = append(tr.User, w5File{Path: configDir + "/hidi.toml", State: "absent"})
	case 1:
		tr.User = append(tr.User, w5File{Path: configDir + "/hidi.toml", State: "intact"})
	default:
		userFile(configDir + "/hidi.toml")
	}
	switch r.Intn(3) {
	case 0:
		tr.User = append(tr.User, w5File{Path: blacklist, State: "absent"})
	case 1:
		tr.User = append(tr.User, w5File{Path: blacklist, State: "intact"})
	default:
		userFile(blacklist)
	}
	if r.Chance(0.3) {
		userFile(configDir + "/extra.txt")
	}
	if r.Chance(0.2) {
		userFile(configDir + "/factory/keyboard/my_own.toml")
	}
	if r.Chance(0.08) {
		// one of the factory directories is a symbolic link to a directory kept elsewhere
		cand := []string{configDir + "/factory", configDir + "/factory/keyboard", configDir + "/factory/gamepad"}
		d := cand[r.Intn(len(cand))]
		gone := false
		for _, m := range tr.MissingDirs {
			gone = gone || d == m || strings.HasPrefix(d, m+"/")
		}
		if !gone {
			tr.LinkedDir = d
		}
	}
	return tr
}

func buildTree(tr *w5Tree) *simfs.FS {
	f := simfs.New()
	f.NoGates = true
	if tr.NoConfigDir {
		return f
	}
	tm := map[string][]byte{}
	for _, e := range template() {
		tm[e.path] = e.data
	}
	missing := func(p string) bool {
		for _, d := range tr.MissingDirs {
			if p == d || strings.HasPrefix(p, d+"/") {
				return true
			}
		}
		return false
	}
	f.PutDir(configDir)
	const linkedReal = "/home/user/dotfiles/hidi-factory-dir"
	at := func(p string) string {
		if tr.LinkedDir != "" && (p == tr.LinkedDir || strings.HasPrefix(p, tr.LinkedDir+"/")) {
			return linkedReal + strings.TrimPrefix(p, tr.LinkedDir)
		}
		return p
	}
	for _, e := range template() {
		if e.dir && isFactory(e.path) && !missing(e.path) {
			if e.path == tr.LinkedDir {
				f.PutDir(linkedReal)
				f.PutSymlink(e.path, linkedReal)
				continue
			}
			f.PutDir(at(e.path))
		}
		if e.dir && !isFactory(e.path) {
			f.PutDir(e.path)
		}
	}
	for _, x := range tr.Factory {
		if missing(x.Path) {
			continue
		}
		switch x.State {
		case "intact":
			f.Put(at(x.Path), tm[x.Path])
		case "truncated":
			d := tm[x.Path]
			if x.Cut <= len(d) {
				d = d[:x.Cut]
			}
			f.Put(at(x.Path), d)
		case "modified":
			f.Put(at(x.Path), x.Data)
		}
	}
	// template user-side files that are not listed stay as in the template (README, placeholders)
	listed := map[string]bool{}
	for _, x := range tr.User {
		listed[x.Path] = true
	}
	for _, e := range template() {
		if !e.dir && !isFactory(e.path) && !listed[e.path] {
			f.Put(e.path, e.data)
		}
	}
	for _, x := range tr.User {
		if strings.HasPrefix(x.Path, configDir+"/factory/") && missing(x.Path) {
			continue
		}
		switch x.State {
		case "intact":
			f.Put(at(x.Path), tm[x.Path])
		case "modified":
			f.Put(at(x.Path), x.Data)
		case "absent":
			f.Delete(at(x.Path))
		}
	}
	return f
}

// protected returns the content of everything the statement says upkeep never touches.
func protected(f *simfs.FS) map[string]string {
	out := map[string]string{}
	for p, c := range f.Snapshot(configDir) {
		p = strings.TrimPrefix(p, "/")
		if strings.HasPrefix(p, configDir+"/user/") || p == configDir+"/user" || p == configDir+"/hidi.toml" || p == blacklist {
			out[p] = c
		}
	}
	return out
}

func diffMaps(a, b map[string]string) string {
	var keys []string
	for k := range a {
		keys = append(keys, k)
	}
	for k := range b {
		if _, ok := a[k]; !ok {
			keys = append(keys, k)
		}
	}
	sort.Strings(keys)
	for _, k := range keys {
		x, okx := a[k]
		y, oky := b[k]
		switch {
		case okx && !oky:
			return fmt.Sprintf("%q disappeared", k)
		case !okx && oky:
			return fmt.Sprintf("%q appeared", k)
		case x != y:
			return fmt.Sprintf("%q changed (%d -> %d bytes)", k, len(x), len(y))
		}
	}
	return ""
}

type upkeepRun struct {
	err     error
	crashed bool
	mut     int
	ops     int
}

func runUpkeep(f *simfs.FS, faults []*simfs.Fault) (u upkeepRun) {
	f.ResetLog()
	f.Faults = faults
	simfs.Attach(f)
	defer simfs.Attach(nil)
	defer func() {
		u.mut = f.MutatingOps()
		u.ops = len(f.Ops)
		f.Faults = nil
		if r := recover(); r != nil {
			if _, ok := r.(simfs.Crash); ok {
				u.crashed = true
				return
			}
			panic(r)
		}
	}()
	u.err = updateHIDIConfiguration()
	return
}

func mkVio(clause, detail string) *worlds.Vio {
	return &worlds.Vio{Props: []string{"C18"}, Clause: clause, Detail: detail}
}

// factoryRestored checks I2 (factoryOnly: just the factory part, used after interrupted runs).
func factoryRestored(f *simfs.FS, tr *w5Tree, hadBlacklist bool, full bool) *worlds.Vio {
	for _, e := range template() {
		if !full && !isFactory(e.path) {
			continue
		}
		ex, isDir := f.Exists(e.path)
		if !ex {
			return mkVio("factory_not_restored", fmt.Sprintf("%q does not exist after a clean upkeep run", e.path))
		}
		if e.dir != isDir {
			return mkVio("factory_not_restored", fmt.Sprintf("%q has the wrong type after a clean upkeep run", e.path))
		}
		if !e.dir {
			got, _ := f.Get(e.path)
			if string(got) != string(e.data) {
				return mkVio("factory_not_restored", fmt.Sprintf("%q differs from its built-in template after a clean upkeep run (%d vs %d bytes)", e.path, len(got), len(e.data)))
			}
		}
	}
	if ex, _ := f.Exists(blacklist); !ex {
		return mkVio("blacklist_not_created", "the device blacklist does not exist after a clean upkeep run")
	}
	return nil
}

func runW5(t *testing.T, job *worlds.Job, seed uint64, rp *worlds.Replay) worlds.RunOut {
	ro := worlds.RunOut{Faults: map[string]int{}, Probes: map[string]int{}, Policy: "sequential"}
	r := simrt.NewRng(seed, "workload")
	tr := genW5(r)
	if rp != nil && rp.Override && len(rp.Ops) > 0 {
		var x w5Tree
		if err := json.Unmarshal(rp.Ops, &x); err != nil {
			ro.Infra = "bad replay ops: " + err.Error()
			return ro
		}
		tr = &x
	}
	fr := simrt.NewRng(seed, "fault")
	fail := func(v *worlds.Vio, ft *w5Fault) worlds.RunOut {
		x := *tr
		x.Only = ft
		b, _ := json.Marshal(&x)
		v.Sig = ""
		ro.Vio = v
		ro.Replay = &worlds.Replay{World: "W5", Prop: "C18", Seed: seed, Tier: job.Tier, Ops: b, Override: true, Config: string(b)}
		return ro
	}
	execs := 0
	// ---- fault-free run: I1, I2, I3 ----
	f := buildTree(tr)
	before := protected(f)
	hadBlacklist := false
	if _, ok := before[blacklist]; ok {
		hadBlacklist = true
	}
	if tr.Only == nil {
		u := runUpkeep(f, nil)
		execs++
		if u.err != nil {
			return fail(mkVio("clean_run_fails", fmt.Sprintf("upkeep on a tree without injected faults returned: %v", u.err)), nil)
		}
		after := protected(f)
		if !hadBlacklist {
			delete(after, blacklist)
		}
		if tr.NoConfigDir {
			// everything is created: compare with the template instead
		} else if d := diffMaps(before, after); d != "" {
			return fail(mkVio("user_file_touched", "clean run: "+d), nil)
		}
		if v := factoryRestored(f, tr, hadBlacklist, tr.NoConfigDir); v != nil {
			return fail(v, nil)
		}
		k := u.mut
		ro.Probes["mutating_ops_in_clean_run"] += k
		u2 := runUpkeep(f, nil)
		execs++
		if u2.err != nil || u2.mut != 0 {
			return fail(mkVio("not_idempotent", fmt.Sprintf("a second clean run performed %d mutating operations (error: %v)", u2.mut, u2.err)), nil)
		}
		// ---- fault enumeration: a crash before every mutating operation of the clean run ----
		var plans []*w5Fault
		for at := 1; at <= k; at++ {
			plans = append(plans, &w5Fault{Kind: "crash", AtMut: at})
		}
		// sampled: torn writes, power loss after a crash, I/O errors at any operation
		nExtra := 6
		if job.Tier == "thorough" {
			nExtra = 40
		}
		for i := 0; i < nExtra && k > 0; i++ {
			switch fr.Intn(5) {
			case 0:
				plans = append(plans, &w5Fault{Kind: "torn", AtMut: 1 + fr.Intn(k), ShortN: fr.Intn(400)})
			case 1:
				plans = append(plans, &w5Fault{Kind: "powerloss", AtMut: 1 + fr.Intn(k+1), Seed: fr.Uint64()})
			case 2:
				plans = append(plans, &w5Fault{Kind: "eio", AtOp: 1 + fr.Intn(u.ops)})
			case 3:
				plans = append(plans, &w5Fault{Kind: "enospc", AtMut: 1 + fr.Intn(k), ShortN: fr.Intn(200)})
			case 4:
				plans = append(plans, &w5Fault{Kind: "eacces", AtOp: 1 + fr.Intn(u.ops)})
			}
		}
		for _, p := range plans {
			if v := w5Faulted(tr, p, before, hadBlacklist, &ro, &execs); v != nil {
				return fail(v, p)
			}
		}
	} else {
		if v := w5Faulted(tr, tr.Only, before, hadBlacklist, &ro, &execs); v != nil {
			return fail(v, tr.Only)
		}
	}
	ro.Steps = execs
	ro.Nontriv = true
	ro.Hash = seed*0x9e3779b97f4a7c15 ^ uint64(execs)
	b, _ := json.Marshal(tr)
	ro.Sample = fmt.Sprintf("seed=%d executions=%d tree=%s", seed, execs, shortStr(string(b), 500))
	ro.States = []string{fmt.Sprintf("nodir=%v missing=%d fact=%s", tr.NoConfigDir, len(tr.MissingDirs), factSig(tr))}
	return ro
}

func factSig(tr *w5Tree) string {
	var s []string
	for _, f := range tr.Factory {
		s = append(s, f.State[:1])
	}
	return strings.Join(s, "")
}

func shortStr(s string, n int) string {
	if len(s) > n {
		return s[:n] + "..."
	}
	return s
}

// w5Faulted runs upkeep once with one planned fault on a fresh copy of the tree, then a clean run.
func w5Faulted(tr *w5Tree, p *w5Fault, before map[string]string, hadBlacklist bool, ro *worlds.RunOut, execs *int) *worlds.Vio {
	f := buildTree(tr)
	f.MarkBoot()
	var faults []*simfs.Fault
	switch p.Kind {
	case "crash", "powerloss":
		faults = []*simfs.Fault{{AtMut: p.AtMut, What: "crash"}}
	case "torn":
		faults = []*simfs.Fault{{AtMut: p.AtMut, What: "torn", ShortN: p.ShortN, Kinds: []string{"write"}}, {AtMut: p.AtMut, What: "crash"}}
	case "eio":
		faults = []*simfs.Fault{{AtOp: p.AtOp, What: "eio"}}
	case "eacces":
		faults = []*simfs.Fault{{AtOp: p.AtOp, What: "eacces"}}
	case "enospc":
		faults = []*simfs.Fault{{AtMut: p.AtMut, What: "short", ShortN: p.ShortN, Kinds: []string{"write"}}, {AtMut: p.AtMut, What: "enospc"}}
	}
	u := runUpkeep(f, faults)
	*execs++
	fired := 0
	for _, ft := range faults {
		fired += ft.Fired
	}
	if fired > 0 {
		ro.Faults[p.Kind]++
	} else {
		ro.Faults[p.Kind+"_not_reached"]++
	}
	if p.Kind == "powerloss" {
		pr := simrt.NewRng(p.Seed, "powerloss")
		ro.Probes["powerloss_files_changed"] += f.PowerLoss(pr.Intn)
	}
	_ = u
	// I1 after the faulted run
	after := protected(f)
	if !hadBlacklist {
		delete(after, blacklist)
	}
	if !tr.NoConfigDir {
		if d := diffMaps(before, after); d != "" {
			return mkVio("user_file_touched", fmt.Sprintf("after a run with fault %+v: %s", *p, d))
		}
	}
	// I4: one clean run restores the factory files
	u2 := runUpkeep(f, nil)
	*execs++
	if u2.err != nil {
		return mkVio("recovery_run_fails", fmt.Sprintf("after a run with fault %+v the next clean run returned: %v", *p, u2.err))
	}
	if v := factoryRestored(f, tr, hadBlacklist, false); v != nil {
		v.Detail = fmt.Sprintf("after a run with fault %+v followed by a clean run: %s", *p, v.Detail)
		return v
	}
	after = protected(f)
	if !hadBlacklist {
		delete(after, blacklist)
	}
	if !tr.NoConfigDir {
		if d := diffMaps(before, after); d != "" {
			return mkVio("user_file_touched", fmt.Sprintf("recovery run after fault %+v: %s", *p, d))
		}
	}
	u3 := runUpkeep(f, nil)
	*execs++
	if u3.err != nil || u3.mut != 0 {
		return mkVio("not_idempotent", fmt.Sprintf("after fault %+v and one clean run, another clean run performed %d mutating operations (error: %v)", *p, u3.mut, u3.err))
	}
	return nil
}

// ---- W5H: hidi.toml loading (second part of C09) ----

func runW5H(t *testing.T, job *worlds.Job, seed uint64, rp *worlds.Replay) worlds.RunOut {
	ro := worlds.RunOut{Faults: map[string]int{}, Probes: map[string]int{}, Policy: "sequential", Nontriv: true}
	r := simrt.NewRng(seed, "workload")
	var base []byte
	for _, e := range template() {
		if e.path == configDir+"/hidi.toml" {
			base = e.data
		}
	}
	text := string(base)
	var log []string
	data := []byte(text)
	fault := ""
	var ioFault *simfs.Fault
	if rp != nil && rp.Override && len(rp.Ops) > 0 {
		var raw []byte // base64 in the replay file: contents are arbitrary bytes
		json.Unmarshal(rp.Ops, &raw)
		data = raw
	} else {
		if r.Chance(0.15) {
			// pathological but valid spellings
			text = []string{"", "[HIDI]\n", "[HIDI]\npool_rate = 0\ndiscovery_rate = 0\n", "[HIDI]\npool_rate = -5\ndiscovery_rate = 1\nstabilization_period = -1\n",
				"HIDI.pool_rate = 120\nHIDI.discovery_rate = 1\n", "[HIDI]\npool_rate = 9223372036854775807\ndiscovery_rate = 9223372036854775807\nstabilization_period = 9223372036854775807\n",
				"HIDI = 5\n", "[[HIDI]]\npool_rate = 1\n", "[hidi]\npool_rate = 1\n"}[r.Intn(9)]
		} else {
			text, log = model.MutateTOML(r, text, 1+r.Intn(5))
		}
		data = []byte(text)
		if r.Chance(0.25) {
			data, fault = model.StorageFault(r, data)
			ro.Faults["storage_"+strings.Fields(fault)[0]]++
		}
		if r.Chance(0.08) {
			ioFault = &simfs.Fault{Path: configDir + "/hidi.toml", Kinds: []string{"read", "open"}, What: []string{"eio", "eacces", "enoent"}[r.Intn(3)]}
			ro.Faults["read_error"]++
		}
	}
	f := simfs.New()
	f.NoGates = true
	f.PutDir(configDir)
	if !(ioFault == nil && r.Chance(0.03)) {
		f.Put(configDir+"/hidi.toml", data)
	} else {
		ro.Faults["file_missing"]++
	}
	if ioFault != nil {
		f.Faults = []*simfs.Fault{ioFault}
	}
	simfs.Attach(f)
	var pv interface{}
	var err error
	func() {
		defer func() { pv = recover() }()
		_, err = LoadHIDIConfig(configDir + "/hidi.toml")
	}()
	simfs.Attach(nil)
	if err != nil {
		ro.Probes["returned_error"]++
	} else {
		ro.Probes["returned_config"]++
	}
	ro.Hash = hashBytes(data)
	ro.Steps = 1
	ro.Sample = fmt.Sprintf("seed=%d edits=%v fault=%q content=%q", seed, log, fault, shortStr(string(data), 200))
	if pv != nil {
		b, _ := json.Marshal(data)
		ro.Vio = &worlds.Vio{Props: []string{"C09"}, Clause: "hidi_toml_panic", Detail: fmt.Sprintf("LoadHIDIConfig panicked: %v on content %q (edits %v, storage fault %q)", pv, shortStr(string(data), 400), log, fault)}
		ro.Replay = &worlds.Replay{World: "W5H", Prop: "C09", Seed: seed, Tier: job.Tier, Ops: b, Override: true, Config: string(data)}
	}
	return ro
}

func hashBytes(b []byte) uint64 {
	h := uint64(14695981039346656037)
	for _, c := range b {
		h = (h ^ uint64(c)) * 1099511628211
	}
	return h
}

// shrinkW5 proposes simpler trees: one damaged factory file made intact, one missing directory restored, one
// user-side entry dropped (the file then has its template content).
func shrinkW5(raw json.RawMessage) []json.RawMessage {
	var tr w5Tree
	if json.Unmarshal(raw, &tr) != nil {
		return nil
	}
	var out []json.RawMessage
	emit := func(t w5Tree) {
		b, _ := json.Marshal(&t)
		out = append(out, b)
	}
	for i, f := range tr.Factory {
		if f.State != "intact" {
			t := tr
			t.Factory = append([]w5File(nil), tr.Factory...)
			t.Factory[i] = w5File{Path: f.Path, State: "intact"}
			emit(t)
		}
	}
	for i := range tr.MissingDirs {
		t := tr
		t.MissingDirs = append(append([]string(nil), tr.MissingDirs[:i]...), tr.MissingDirs[i+1:]...)
		emit(t)
	}
	for i := range tr.User {
		t := tr
		t.User = append(append([]w5File(nil), tr.User[:i]...), tr.User[i+1:]...)
		emit(t)
	}
	return out
}
